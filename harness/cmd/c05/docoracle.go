package main

// Documentation-level oracles for the grammar helpers of Section A (implementation only: nothing
// here looks at the Lean model, and nothing is derived from observed output).
//
// Every clause restates a sentence of the documentation:
//
//   protoversion (package doc of PackageVersion, and the Purpose text of PACKAGE_VERSION_SUFFIX):
//     "A package has a version if the last component is a version of the form
//      v\d+, v\d+test.*, v\d+(alpha|beta)\d*, or v\d+p\d+(alpha|beta)\d* where numbers are >=1.
//      Packages must have at least two components"; WithAllowV0 "allows major version numbers to be 0";
//      NewPackageVersionForComponent "also returns false if the input is not a component" (contains '.').
//   stringutil:
//     ToLowerSnakeCase "transforms s to lower_snake_case", ToUpperSnakeCase "… UPPER_SNAKE_CASE",
//     SnakeCaseWithNewWordOnDigits "split on digits, ie foo_bar_1 instead of foo_bar1",
//     ToPascalCase "converts s to PascalCase. Splits on '-', '_', ' ', '\t', '\n', '\r'. Uppercase
//     letters will stay uppercase", SplitTrimLines "splits the output into individual lines and trims
//     the spaces from each line", SplitTrimLinesNoEmpty "… removes any empty lines", TrimLines "… also
//     trims the start and end spaces from the original output";
//   the naming conventions of the lint rules (style guide): lower_snake_case = [a-z0-9]+(_[a-z0-9]+)*,
//     UPPER_SNAKE_CASE = [A-Z0-9]+(_[A-Z0-9]+)*, PascalCase = [A-Z][A-Za-z0-9]*.
//
// A failure is a concrete string on which the real function contradicts its documentation.

import (
	"fmt"
	"regexp"
	"strconv"
	"strings"
	"unicode"

	"github.com/bufbuild/buf/private/pkg/stringutil"
	"github.com/bufbuild/verifharness/internal/hx"
)

// failA records a Section A oracle failure; at most a few per class are kept with their input (a
// broken helper fails on thousands of strings), all are counted.
var failsPerClass = map[string]int{}

func failA(run *hx.Run, f hx.OracleFailure) {
	failsPerClass[f.Class]++
	if failsPerClass[f.Class] <= 5 {
		run.Fail(f)
		return
	}
	run.Count("_oracle_failures")
	run.Count("A:oracle-failures-not-listed:" + f.Class)
}

// ---- version grammar ----

var (
	reVerStable = regexp.MustCompile(`(?s)^v(\d+)$`)
	reVerTest   = regexp.MustCompile(`(?s)^v(\d+)test(.*)$`)
	reVerAB     = regexp.MustCompile(`(?s)^v(\d+)(alpha|beta)(\d*)$`)
	reVerPatch  = regexp.MustCompile(`(?s)^v(\d+)p(\d+)(alpha|beta)(\d*)$`)
	// the same four forms with an optional sign in front of every number: only used to CLASSIFY the
	// one documented-vs-coded divergence about signs (see docVersion), never to accept anything
	reVerSigned = regexp.MustCompile(`(?s)^v[+-]?\d+$|^v[+-]?\d+test.*$|^v[+-]?\d+(p[+-]?\d+)?(alpha|beta)([+-]?\d+)?$`)
)

type docVer struct {
	ok                  bool
	major, minor, patch int
	stability           string // "stable", "alpha", "beta", "test"
	suffix              string
}

func (d docVer) String() string {
	if !d.ok {
		return "none"
	}
	return fmt.Sprintf("ok %d %s %d %d %s", d.major, d.stability, d.minor, d.patch, hx.Enc(d.suffix))
}

const (
	docSpecified = ""
	// The two places where the documentation and the code at HEAD are known to disagree.  They
	// are counted (A:version:doc-divergence-*) and described in handoff/C05-strengthen2.md; the
	// oracle gives NO verdict on exactly these strings (and only these):
	//   int32: a number of the documented form \d+ that does not fit an int32 — documented as a
	//          version, rejected by the code (strconv.ParseInt(…, 32));
	//   sign:  a '+' or '-' in front of a number — not of the documented form, accepted by the
	//          code (strconv.ParseInt accepts a sign); such a string is no protobuf identifier, so
	//          it can never be a package component of a compiled file.
	docDivergenceInt32 = "int32"
	docDivergenceSign  = "sign"

	// reportDocDivergences: false = the two divergences are counted and described in the hand-off
	// only (the first pass recorded "strconv.ParseInt accepts v+1" as a quirk of the code, theorem
	// version_table).  Set to true once the lead records them in known_findings.json: they are then
	// oracle failures of the two classes c05-version-sign-accepted / c05-version-int32-rejected.
	reportDocDivergences = false
)

// docNumber: a documented "number" — decimal digits, value >= min.  big = does not fit an int32.
func docNumber(digits string, min int) (n int, ok bool, big bool) {
	v, err := strconv.ParseUint(digits, 10, 64)
	if err != nil || v > 1<<31-1 {
		return 0, false, true
	}
	return int(v), int(v) >= min, false
}

// docVersionComponent decides from the documented grammar alone whether component is a version.
func docVersionComponent(component string, allowV0 bool) (docVer, string) {
	minMajor := 1
	if allowV0 {
		minMajor = 0
	}
	if strings.Contains(component, ".") {
		return docVer{}, docSpecified // not a component
	}
	big := false
	num := func(digits string, min int) (int, bool) {
		n, ok, b := docNumber(digits, min)
		big = big || b
		return n, ok
	}
	var d docVer
	switch {
	case reVerStable.MatchString(component):
		m := reVerStable.FindStringSubmatch(component)
		major, ok := num(m[1], minMajor)
		d = docVer{ok: ok, major: major, stability: "stable"}
	case reVerTest.MatchString(component):
		m := reVerTest.FindStringSubmatch(component)
		major, ok := num(m[1], minMajor)
		d = docVer{ok: ok, major: major, stability: "test", suffix: m[2]}
	case reVerAB.MatchString(component):
		m := reVerAB.FindStringSubmatch(component)
		major, ok := num(m[1], minMajor)
		minor, ok2 := 0, true
		if m[3] != "" {
			minor, ok2 = num(m[3], 1)
		}
		d = docVer{ok: ok && ok2, major: major, stability: m[2], minor: minor}
	case reVerPatch.MatchString(component):
		m := reVerPatch.FindStringSubmatch(component)
		major, ok := num(m[1], minMajor)
		patch, ok1 := num(m[2], 1)
		minor, ok2 := 0, true
		if m[4] != "" {
			minor, ok2 = num(m[4], 1)
		}
		d = docVer{ok: ok && ok1 && ok2, major: major, stability: m[3], minor: minor, patch: patch}
	default:
		if reVerSigned.MatchString(component) {
			return docVer{}, docDivergenceSign
		}
		return docVer{}, docSpecified
	}
	if big {
		return docVer{}, docDivergenceInt32
	}
	if !d.ok {
		return docVer{}, docSpecified
	}
	return d, docSpecified
}

// docVersionPackage: "Packages must have at least two components"; the version is the last one.
func docVersionPackage(pkg string, allowV0 bool) (docVer, string) {
	if pkg == "" {
		return docVer{}, docSpecified
	}
	parts := strings.Split(pkg, ".")
	if len(parts) < 2 {
		return docVer{}, docSpecified
	}
	return docVersionComponent(parts[len(parts)-1], allowV0)
}

// versionOracle compares what the real parser answered (got, in verString form) with the
// documented grammar.
func versionOracle(run *hx.Run, fn, s string, allowV0 bool, got string) {
	var want docVer
	var div string
	if fn == "NewPackageVersionForComponent" {
		want, div = docVersionComponent(s, allowV0)
	} else {
		want, div = docVersionPackage(s, allowV0)
	}
	if div != docSpecified {
		run.Count("A:version:doc-divergence-" + div)
		accepted := got != "none"
		if reportDocDivergences && ((div == docDivergenceSign && accepted) || (div == docDivergenceInt32 && !accepted)) {
			cls, why := "c05-version-sign-accepted", "a sign in front of a number is not of the documented form \\d+, yet the string is accepted"
			if div == docDivergenceInt32 {
				cls, why = "c05-version-int32-rejected", "the string is of the documented form (\\d+, numbers >= 1) but a number beyond int32 is rejected"
			}
			failA(run, hx.OracleFailure{Class: cls, What: fmt.Sprintf("protoversion.%s(%q, allowV0=%v) = %s: %s", fn, s, allowV0, got, why),
				Input: map[string]any{"function": "protoversion." + fn, "argument": s, "allow_v0": allowV0, "got": got}, Replay: fmt.Sprintf("protoversion.%s(%q) in a Go test", fn, s)})
		}
		return
	}
	run.Count("A:version:oracle-checked")
	if got == want.String() {
		return
	}
	cls := "c05-version-grammar-accepts-undocumented-form"
	switch {
	case got == "none":
		cls = "c05-version-grammar-rejects-documented-form"
	case want.ok:
		cls = "c05-version-grammar-wrong-parts"
	}
	failA(run, hx.OracleFailure{Class: cls,
		What: fmt.Sprintf("protoversion.%s(%q, allowV0=%v) = %s, but the documented grammar (v\\d+ | v\\d+test.* | v\\d+(alpha|beta)\\d* | v\\d+p\\d+(alpha|beta)\\d*, numbers >= 1) says %s",
			fn, s, allowV0, got, want.String()),
		Input:  map[string]any{"function": "protoversion." + fn, "argument": s, "allow_v0": allowV0, "got": got, "documented": want.String()},
		Replay: fmt.Sprintf("protoversion.%s(%q) in a Go test", fn, s)})
}

// isDocVersionPackage is what Section B uses: does the package carry a documented version suffix?
// (nil verdict on the two divergences — Section B never generates them.)
func isDocVersionPackage(pkg string) (versioned bool, stable bool) {
	d, div := docVersionPackage(pkg, false)
	if div != docSpecified {
		panic("section B generated a package in a documented-vs-coded divergence: " + pkg)
	}
	return d.ok, d.ok && d.stability == "stable"
}

// ---- naming conventions ----

var (
	reLowerSnake = regexp.MustCompile(`^[a-z0-9]+(_[a-z0-9]+)*$`)
	reUpperSnake = regexp.MustCompile(`^[A-Z0-9]+(_[A-Z0-9]+)*$`)
	rePascal     = regexp.MustCompile(`^[A-Z][A-Za-z0-9]*$`)
	rePascalOut  = regexp.MustCompile(`^[A-Z0-9][A-Za-z0-9]*$`)
	reWordsDigit = regexp.MustCompile(`^[a-z]+(_[a-z]+)*[0-9]$`)
)

func isASCIIAlnum(c rune) bool {
	return c < 128 && (unicode.IsLetter(c) || unicode.IsDigit(c))
}

// the characters the documentation names as word separators ('.' is one more, as coded; strings
// containing it are judged by the clauses that do not depend on the separator set)
func isDocSeparator(c rune) bool {
	switch c {
	case '-', '_', ' ', '\t', '\n', '\r':
		return true
	}
	return false
}

// onlyWords: ASCII letters, digits and documented separators — the domain on which "is
// lower_snake_case" has an unambiguous meaning.
func onlyWords(s string) bool {
	for _, c := range s {
		if !isASCIIAlnum(c) && !isDocSeparator(c) {
			return false
		}
	}
	return true
}

func stripSeparators(s string) string {
	var sb strings.Builder
	for _, c := range s {
		if !isDocSeparator(c) {
			sb.WriteRune(c)
		}
	}
	return sb.String()
}

func caseFail(run *hx.Run, cls, fn, arg, got, why string) {
	failA(run, hx.OracleFailure{Class: cls,
		What:   fmt.Sprintf("stringutil.%s(%q) = %q: %s", fn, arg, got, why),
		Input:  map[string]any{"function": "stringutil." + fn, "argument": arg, "got": got},
		Replay: fmt.Sprintf("stringutil.%s(%q) in a Go test", fn, arg)})
}

// snakeOracle: ToLowerSnakeCase / ToUpperSnakeCase WITHOUT options.
func snakeOracle(run *hx.Run, s string, upper bool, got string) {
	fn, re, conv, name := "ToLowerSnakeCase", reLowerSnake, strings.ToLower, "lower_snake_case"
	wrongCase := func(c rune) bool { return c >= 'A' && c <= 'Z' }
	if upper {
		fn, re, conv, name = "ToUpperSnakeCase", reUpperSnake, strings.ToUpper, "UPPER_SNAKE_CASE"
		wrongCase = func(c rune) bool { return c >= 'a' && c <= 'z' }
	}
	run.Count("A:case:oracle-checked")
	// a name that already follows the convention is left alone (else the lint rule built on the
	// comparison `name != convert(name)` reports a conforming name)
	if re.MatchString(s) && got != s {
		caseFail(run, "c05-case-conversion-changes-conforming-name", fn, s, got, "the argument is "+name+" ("+re.String()+") and must be returned unchanged")
		return
	}
	// a name with a letter of the wrong case does not follow the convention: it must change
	if strings.IndexFunc(s, wrongCase) >= 0 && got == s {
		caseFail(run, "c05-case-conversion-keeps-nonconforming-name", fn, s, got, "the argument contains a letter of the wrong case, so it is not "+name+" and must not be returned unchanged")
		return
	}
	if !onlyWords(s) {
		return
	}
	// the result IS lower_snake_case / UPPER_SNAKE_CASE (or empty when there was no word at all)
	if got != "" && !re.MatchString(got) {
		caseFail(run, "c05-case-conversion-result-not-in-convention", fn, s, got, "the result is not "+name+" ("+re.String()+")")
		return
	}
	// only separators and case change: the letters and digits are those of the argument, in order
	if stripSeparators(got) != conv(stripSeparators(s)) {
		caseFail(run, "c05-case-conversion-loses-characters", fn, s, got, "letters and digits of the result differ from those of the argument")
	}
}

// snakeDigitsOracle: SnakeCaseWithNewWordOnDigits "split on digits, ie foo_bar_1 instead of
// foo_bar1" — and, without the option, digits do NOT start a word (foo_bar1 stays).
func snakeDigitsOracle(run *hx.Run, s string, gotPlain, gotDigits string) {
	if !reWordsDigit.MatchString(s) {
		return
	}
	run.Count("A:case:oracle-digits-checked")
	want := s[:len(s)-1] + "_" + s[len(s)-1:]
	if gotDigits != want {
		caseFail(run, "c05-case-conversion-new-word-on-digits", "ToLowerSnakeCase+SnakeCaseWithNewWordOnDigits", s, gotDigits, "documented: split on digits, ie foo_bar_1 instead of foo_bar1; want "+want)
	}
	if gotPlain != s {
		caseFail(run, "c05-case-conversion-changes-conforming-name", "ToLowerSnakeCase", s, gotPlain, "without SnakeCaseWithNewWordOnDigits a digit does not start a new word (foo_bar1 stays foo_bar1)")
	}
}

func pascalOracle(run *hx.Run, s string, got string) {
	const fn = "ToPascalCase"
	run.Count("A:case:oracle-checked")
	if rePascal.MatchString(s) && got != s {
		caseFail(run, "c05-case-conversion-changes-conforming-name", fn, s, got, "the argument is PascalCase ("+rePascal.String()+") and must be returned unchanged (uppercase letters stay uppercase)")
		return
	}
	if s != "" && got == s {
		if strings.IndexFunc(s, isDocSeparator) >= 0 {
			caseFail(run, "c05-case-conversion-keeps-nonconforming-name", fn, s, got, "the argument contains a documented separator, so it is not PascalCase and must not be returned unchanged")
			return
		}
		if s[0] >= 'a' && s[0] <= 'z' {
			caseFail(run, "c05-case-conversion-keeps-nonconforming-name", fn, s, got, "the argument starts with a lower-case letter, so it is not PascalCase and must not be returned unchanged")
			return
		}
	}
	if !onlyWords(s) {
		return
	}
	if got != "" && !rePascalOut.MatchString(got) {
		caseFail(run, "c05-case-conversion-result-not-in-convention", fn, s, got, "the result is not PascalCase")
		return
	}
	in := stripSeparators(s)
	if !strings.EqualFold(got, in) {
		caseFail(run, "c05-case-conversion-loses-characters", fn, s, got, "letters and digits of the result differ from those of the argument")
		return
	}
	for i := 0; i < len(in) && i < len(got); i++ {
		if in[i] >= 'A' && in[i] <= 'Z' && got[i] != in[i] {
			caseFail(run, "c05-case-conversion-lowers-uppercase", fn, s, got, "documented: uppercase letters will stay uppercase")
			return
		}
	}
}

// wordsOracle: the conventions name the SAME words.  For words w1..wn — each either a plain word
// (one upper-case letter followed by lower-case letters) or an ACRONYM (all capitals, never two in
// a row; stringutil_test.go: JSONPascal -> json_pascal, FooJSONPascal -> foo_json_pascal,
// JSONPascalJSON -> json_pascal_json) — the PascalCase spelling converts to the lower_snake_case
// spelling w1_w2_.._wn and to the UPPER_SNAKE_CASE one and is itself left alone by ToPascalCase;
// without acronyms the camelCase / snake / dash / space spellings convert into each other as well.
func wordsOracle(run *hx.Run, words []string) {
	var pascal, camel string
	lower := make([]string, len(words))
	upper := make([]string, len(words))
	acronyms := false
	for i, w := range words {
		lw := strings.ToLower(w)
		tw := strings.ToUpper(lw[:1]) + lw[1:]
		if w == strings.ToUpper(w) {
			acronyms = true
			tw = w
		}
		pascal += tw
		if i == 0 {
			camel += lw
		} else {
			camel += tw
		}
		lower[i], upper[i] = lw, strings.ToUpper(lw)
	}
	ls, us := strings.Join(lower, "_"), strings.Join(upper, "_")
	run.Count("A:case:oracle-words-checked")
	check := func(fn, arg, got, want string) {
		if got != want {
			caseFail(run, "c05-case-conversion-between-conventions", fn, arg, got, fmt.Sprintf("the words are %v: want %q", lower, want))
		}
	}
	srcs := []string{pascal, ls}
	if !acronyms || words[0] != strings.ToUpper(words[0]) {
		srcs = append(srcs, camel)
	}
	for _, src := range srcs {
		check("ToLowerSnakeCase", src, stringutil.ToLowerSnakeCase(src), ls)
		check("ToUpperSnakeCase", src, stringutil.ToUpperSnakeCase(src), us)
	}
	check("ToUpperSnakeCase", us, stringutil.ToUpperSnakeCase(us), us)
	check("ToLowerSnakeCase", us, stringutil.ToLowerSnakeCase(us), ls)
	check("ToPascalCase", pascal, stringutil.ToPascalCase(pascal), pascal)
	if acronyms {
		return
	}
	for _, src := range []string{ls, strings.Join(lower, "-"), strings.Join(lower, " ")} {
		check("ToPascalCase", src, stringutil.ToPascalCase(src), pascal)
	}
}

// ---- line splitting ----

func allSpace(s string) bool { return strings.TrimFunc(s, unicode.IsSpace) == "" }

func edgeSpace(s string) bool {
	if s == "" {
		return false
	}
	rs := []rune(s)
	return unicode.IsSpace(rs[0]) || unicode.IsSpace(rs[len(rs)-1])
}

func removeSpace(s string) string {
	return strings.Map(func(c rune) rune {
		if unicode.IsSpace(c) {
			return -1
		}
		return c
	}, s)
}

func linesFail(run *hx.Run, fn, arg string, got any, why string) {
	failA(run, hx.OracleFailure{Class: "c05-split-trim-lines",
		What:   fmt.Sprintf("stringutil.%s(%q) = %q: %s", fn, arg, got, why),
		Input:  map[string]any{"function": "stringutil." + fn, "argument": arg, "got": got},
		Replay: fmt.Sprintf("stringutil.%s(%q) in a Go test", fn, arg)})
}

func linesOracle(run *hx.Run, s string, parts, noEmpty []string, trimmed string) {
	run.Count("A:lines:oracle-checked")
	// the individual lines of s, found by scanning for '\n' (no use of the function under test)
	var lines []string
	start := 0
	for i := 0; i <= len(s); i++ {
		if i == len(s) || s[i] == '\n' {
			lines = append(lines, s[start:i])
			start = i + 1
		}
	}
	if len(parts) != len(lines) {
		linesFail(run, "SplitTrimLines", s, parts, fmt.Sprintf("the argument has %d lines, the result %d", len(lines), len(parts)))
		return
	}
	var want []string
	for i, p := range parts {
		// each result is its line without the spaces around it: line = spaces + result + spaces
		j := strings.Index(lines[i], p)
		if edgeSpace(p) || j < 0 || !allSpace(lines[i][:j]) || !allSpace(lines[i][j+len(p):]) {
			linesFail(run, "SplitTrimLines", s, parts, fmt.Sprintf("element %d is not line %d (%q) with the spaces around it trimmed", i, i, lines[i]))
			return
		}
		if p != "" {
			want = append(want, p)
		}
	}
	if strings.Join(noEmpty, "\x00") != strings.Join(want, "\x00") || len(noEmpty) != len(want) {
		linesFail(run, "SplitTrimLinesNoEmpty", s, noEmpty, fmt.Sprintf("want the non-empty trimmed lines %q", want))
		return
	}
	// TrimLines: every line trimmed, the whole trimmed, nothing but spaces removed
	if edgeSpace(trimmed) || removeSpace(trimmed) != removeSpace(s) {
		linesFail(run, "TrimLines", s, trimmed, "start/end of the output must be trimmed and only spaces may be removed")
		return
	}
	for _, l := range strings.Split(trimmed, "\n") {
		if edgeSpace(l) {
			linesFail(run, "TrimLines", s, trimmed, fmt.Sprintf("line %q of the result is not trimmed", l))
			return
		}
	}
	if strings.Count(trimmed, "\n") > strings.Count(s, "\n") {
		linesFail(run, "TrimLines", s, trimmed, "the result has more lines than the argument")
	}
}
