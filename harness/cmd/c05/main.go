// Command c05 is the correspondence + oracle harness for property C05
// ("lint reports exactly the style violations that are present").
//
// Section A ties the Lean model of private/pkg/stringutil (ToPascalCase, ToLowerSnakeCase,
// ToUpperSnakeCase with/without SnakeCaseWithNewWordOnDigits, SplitTrimLines,
// SplitTrimLinesNoEmpty, TrimLines) and private/pkg/protoversion (package-version parser) to
// the real functions: exhaustive identifier strings over {a,B,_,1}, exhaustive version token
// sequences, and random strings with every delimiter / space character.
//
// Section B (workspace.go, render.go, plant.go) generates clean-by-construction workspaces,
// renders them to .proto text, builds them with buf's own image builder in-process, runs the
// real bufcheck.Client.Lint per category / option set / config version, applies planting
// operators at every applicable element, and compares (rule, file, source path) sets with the
// Lean model; the oracle checks the property's statement on the implementation alone.
package main

import (
	"fmt"
	"os"
	"strconv"
	"strings"

	"github.com/bufbuild/buf/private/pkg/protoversion"
	"github.com/bufbuild/buf/private/pkg/stringutil"
	"github.com/bufbuild/verifharness/internal/hx"
)

func b2s(b bool) string {
	if b {
		return "1"
	}
	return "0"
}

// caseLines emits the five conversion lines for s, plus a second application of each (the
// idempotence replay: ToPascalCase and ToUpperSnakeCase are NOT idempotent on all strings as
// coded — see BufProofs.C05.pascal_idempotent_counterexample / upperSnake_idempotent_counterexample).
func caseLines(run *hx.Run, s string, twice bool) {
	e := hx.Enc(s)
	p := stringutil.ToPascalCase(s)
	run.Case("pascal\t"+e, hx.Enc(p), p != s)
	pascalOracle(run, s, p)
	if p == s {
		run.Count("A:pascal:fixpoint")
	} else {
		run.Count("A:pascal:changed")
	}
	for _, nwod := range []bool{false, true} {
		var opts []stringutil.SnakeCaseOption
		if nwod {
			opts = append(opts, stringutil.SnakeCaseWithNewWordOnDigits())
		}
		l := stringutil.ToLowerSnakeCase(s, opts...)
		u := stringutil.ToUpperSnakeCase(s, opts...)
		run.Case("lsnake\t"+b2s(nwod)+"\t"+e, hx.Enc(l), l != s)
		run.Case("usnake\t"+b2s(nwod)+"\t"+e, hx.Enc(u), u != s)
		if nwod {
			snakeDigitsOracle(run, s, stringutil.ToLowerSnakeCase(s), l)
		}
		if !nwod {
			snakeOracle(run, s, false, l)
			snakeOracle(run, s, true, u)
			if l == s {
				run.Count("A:lsnake:fixpoint")
			}
			if u == s {
				run.Count("A:usnake:fixpoint")
			}
		}
		if twice {
			l2 := stringutil.ToLowerSnakeCase(l, opts...)
			u2 := stringutil.ToUpperSnakeCase(u, opts...)
			run.Case("lsnake\t"+b2s(nwod)+"\t"+hx.Enc(l), hx.Enc(l2), l2 != l)
			run.Case("usnake\t"+b2s(nwod)+"\t"+hx.Enc(u), hx.Enc(u2), u2 != u)
			if l2 != l {
				run.Count("A:lsnake:not-idempotent")
			}
			if u2 != u {
				run.Count("A:usnake:not-idempotent")
			}
		}
	}
	if twice {
		p2 := stringutil.ToPascalCase(p)
		run.Case("pascal\t"+hx.Enc(p), hx.Enc(p2), p2 != p)
		if p2 != p {
			run.Count("A:pascal:not-idempotent")
		}
	}
}

func verString(v protoversion.PackageVersion, ok bool) string {
	if !ok {
		return "none"
	}
	var st string
	switch v.StabilityLevel() {
	case protoversion.StabilityLevelStable:
		st = "stable"
	case protoversion.StabilityLevelAlpha:
		st = "alpha"
	case protoversion.StabilityLevelBeta:
		st = "beta"
	case protoversion.StabilityLevelTest:
		st = "test"
	default:
		st = "other"
	}
	return fmt.Sprintf("ok %d %s %d %d %s", v.Major(), st, v.Minor(), v.Patch(), hx.Enc(v.Suffix()))
}

func versionLines(run *hx.Run, s string) {
	e := hx.Enc(s)
	for _, v0 := range []bool{false, true} {
		var opts []protoversion.PackageVersionOption
		if v0 {
			opts = append(opts, protoversion.WithAllowV0())
		}
		v, ok := protoversion.NewPackageVersionForComponent(s, opts...)
		out := verString(v, ok)
		run.Case("verc\t"+b2s(v0)+"\t"+e, out, ok)
		versionOracle(run, "NewPackageVersionForComponent", s, v0, out)
		pv, pok := protoversion.NewPackageVersionForPackage(s, opts...)
		run.Case("ver\t"+b2s(v0)+"\t"+e, verString(pv, pok), pok)
		versionOracle(run, "NewPackageVersionForPackage", s, v0, verString(pv, pok))
		if !v0 {
			if ok {
				run.Count("A:verc:ok:" + strings.Fields(out)[2])
			} else {
				run.Count("A:verc:none")
			}
			if pok {
				run.Count("A:ver:ok")
			}
		}
	}
}

func lineLines(run *hx.Run, s string) {
	e := hx.Enc(s)
	parts := stringutil.SplitTrimLines(s)
	encs := make([]string, len(parts))
	for i, p := range parts {
		encs[i] = hx.Enc(p)
	}
	run.Case("stl\t"+e, strings.Join(encs, ","), len(parts) > 1)
	ne := stringutil.SplitTrimLinesNoEmpty(s)
	if len(ne) == 0 {
		run.Case("stlne\t"+e, "none", true)
	} else {
		encs = make([]string, len(ne))
		for i, p := range ne {
			encs[i] = hx.Enc(p)
		}
		run.Case("stlne\t"+e, strings.Join(encs, ","), len(ne) != len(parts))
	}
	tl := stringutil.TrimLines(s)
	run.Case("tl\t"+e, hx.Enc(tl), true)
	linesOracle(run, s, parts, ne, tl)
}

func enumerate(alphabet []string, maxLen int, f func(string)) {
	var rec func(prefix string, n int)
	rec = func(prefix string, n int) {
		f(prefix)
		if n == maxLen {
			return
		}
		for _, c := range alphabet {
			rec(prefix+c, n+1)
		}
	}
	rec("", 0)
}

var caseAtoms = []string{"a", "b", "z", "A", "B", "Z", "0", "1", "9", "_", "_", ".", "-", " ", "\t", "\n", "\r", "\v", "\f",
	"foo", "Bar", "ID", "HTTP", "v2", "x1", "__", "!", "$", "/", "~"}

func randomCaseString(r *hx.Rand) string {
	n := r.Intn(10)
	var sb strings.Builder
	for i := 0; i < n; i++ {
		sb.WriteString(hx.Pick(r, caseAtoms))
	}
	return sb.String()
}

var verTokens = []string{"v", "1", "0", "2", "p", "alpha", "beta", "test", ".", "a", "+", "-", "10"}

// verTokensExt: what strconv.ParseInt would take for a number under another base or with digit
// separators (0x1, 0b1, 0o7, 1_0, 0X1F), leading zeros; enumerated one level shallower.
var verTokensExt = []string{"_", "x", "b", "o", "X", "00", "e"}

// verNumbers: what stands where the documented grammar has \d+ — decimal numbers (with leading
// zeros, around the int32 boundary, far beyond int64) and near-numbers of other notations.
var verNumbers = []string{"1", "2", "10", "0", "01", "007", "00", "2147483647", "2147483648", "4294967297", "99999999999999999999",
	"1_0", "1_1", "0x1", "0b1", "0o7", "0X1F", "1e3", "+1", "-1", "-0", "0_1", "1_", "_1", "x1", ""}

func hasAny(s string, toks []string) bool {
	for _, t := range toks {
		if strings.Contains(s, t) {
			return true
		}
	}
	return false
}

// versionTemplates: every documented form (and `vNpP` without a stability, which is not one)
// with every combination of verNumbers in the number positions.
func versionTemplates(f func(string)) {
	abs := []string{"alpha", "beta", "gamma", "Alpha", "alphabeta"}
	minors := append([]string{}, verNumbers...)
	small := []string{"1", "0", "01", "2147483648", "1_0", "0x1", "+1", ""}
	for _, n := range verNumbers {
		f("v" + n)
		f("V" + n)
		f(n)
		for _, sfx := range []string{"", "foo", "_1", "alpha", "1"} {
			f("v" + n + "test" + sfx)
		}
		for _, ab := range abs {
			for _, m := range minors {
				f("v" + n + ab + m)
			}
		}
		for _, p := range small {
			f("v" + n + "p" + p)
			for _, ab := range abs[:2] {
				for _, m := range small {
					f("v" + n + "p" + p + ab + m)
					f("v" + p + "p" + n + ab + m)
				}
			}
		}
	}
}

var verEditChars = []string{"_", "x", "b", "o", "X", "+", "-", "0", "1", "9", "e", "p", "v", ".", "a", "A", " "}

// nearMissVersion: a documented version with one character inserted, replaced or deleted.
func nearMissVersion(r *hx.Rand) string {
	n := func() string {
		return hx.Pick(r, []string{"1", "2", "3", "10", "12", "0", "01", "2147483647", "2147483648", strconv.Itoa(r.Intn(5000000000))})
	}
	var s string
	switch r.Intn(4) {
	case 0:
		s = "v" + n()
	case 1:
		s = "v" + n() + "test" + hx.Pick(r, []string{"", "foo", "1", "_x"})
	case 2:
		s = "v" + n() + hx.Pick(r, []string{"alpha", "beta"}) + hx.Pick(r, []string{"", n()})
	default:
		s = "v" + n() + "p" + n() + hx.Pick(r, []string{"alpha", "beta"}) + hx.Pick(r, []string{"", n()})
	}
	for k := r.Intn(3); k > 0; k-- {
		i := r.Intn(len(s) + 1)
		switch r.Intn(3) {
		case 0:
			s = s[:i] + hx.Pick(r, verEditChars) + s[i:]
		case 1:
			if i < len(s) {
				s = s[:i] + hx.Pick(r, verEditChars) + s[i+1:]
			}
		default:
			if i < len(s) {
				s = s[:i] + s[i+1:]
			}
		}
	}
	if r.Chance(1, 2) {
		s = hx.Pick(r, []string{"a.", "foo.bar.", "."}) + s
	}
	return s
}

func randomVersion(r *hx.Rand) string {
	var sb strings.Builder
	if r.Chance(2, 3) {
		sb.WriteString(hx.Pick(r, []string{"a.", "foo.bar.", "a.b.c.", "", "v1."}))
	}
	n := 1 + r.Intn(7)
	for i := 0; i < n; i++ {
		switch r.Intn(12) {
		case 0:
			sb.WriteString(strconv.Itoa(r.Intn(5000000000)))
		case 1:
			sb.WriteString(hx.Pick(r, []string{"2147483647", "2147483648", "00", "007", "99999999999999999999", "_", "1_0", "V", "Alpha", "tes", "alph", "bet"}))
		default:
			sb.WriteString(hx.Pick(r, verTokens))
		}
	}
	return sb.String()
}

func sectionA(run *hx.Run, r *hx.Rand) {
	// corpus: the documented non-idempotence witnesses, always replayed first
	for _, s := range []string{"_\va", "ab!", "a1", "foo__bar", "FOO1Bar", "fooBARBaz", "HTTPServer2xx", " x ", "_", ""} {
		caseLines(run, s, true)
	}
	maxLen := run.N(7, 9)
	enumerate([]string{"a", "B", "_", "1"}, maxLen, func(s string) {
		caseLines(run, s, len(s) <= 6)
		run.Count("A:enum-len:" + strconv.Itoa(len(s)))
	})
	enumerate(verTokens, run.N(4, 5), func(s string) { versionLines(run, s) })
	enumerate(append(append([]string{}, verTokens...), verTokensExt...), run.N(3, 4), func(s string) {
		// thorough (length 4): only strings that can reach the number parser — a component starting
		// with v, or a package whose last component does
		if hasAny(s, verTokensExt) && (!run.Thorough() || strings.HasPrefix(s, "v") || strings.Contains(s, ".v")) {
			versionLines(run, s)
			run.Count("A:version:extended-alphabet")
		}
	})
	versionTemplates(func(s string) {
		versionLines(run, s)
		versionLines(run, "a.b."+s)
		run.Count("A:version:template")
	})
	// the conventions name the same words (documentation-level round trips)
	wordPool := []string{"Foo", "Bar", "Id", "Http", "User", "Name", "Ab", "Zz", "Value", "Xy"}
	acronymPool := []string{"ID", "HTTP", "JSON", "AB", "XYZ"}
	for _, x := range acronymPool {
		wordsOracle(run, []string{x})
		for _, a := range wordPool {
			wordsOracle(run, []string{x, a})
			wordsOracle(run, []string{a, x})
			for _, b := range wordPool {
				wordsOracle(run, []string{a, x, b})
				wordsOracle(run, []string{x, a, b})
				wordsOracle(run, []string{a, b, x})
			}
			for _, y := range acronymPool {
				wordsOracle(run, []string{x, a, y})
			}
		}
	}
	for _, a := range wordPool {
		wordsOracle(run, []string{a})
		for _, b := range wordPool {
			wordsOracle(run, []string{a, b})
			for _, c := range wordPool[:4] {
				wordsOracle(run, []string{a, b, c})
			}
		}
	}
	for _, s := range []string{"a.v1", "a.v1beta1", "a.v1alpha2", "a.v1p1beta1", "a.v1test", "a.v1testfoo", "v1", "a.v0", "a.v+1", "a.v-0", "a.v1p0beta1", "a.v1beta0", "a.v1alphabeta1", "a.v1beta1alpha", "a.vp1beta1", "foo.v2147483647", "foo.v2147483648"} {
		versionLines(run, s)
	}
	n := run.N(6000, 120000)
	for i := 0; i < n; i++ {
		rr := r.Fork(uint64(i))
		caseLines(run, randomCaseString(rr), true)
		versionLines(run, randomVersion(rr))
		versionLines(run, nearMissVersion(rr))
		if i%3 == 0 {
			lineLines(run, randomCaseString(rr)+hx.Pick(rr, []string{"", "\n", " \n ", "\r\n"})+randomCaseString(rr))
		}
	}
}

func main() {
	run := hx.Start("C05")
	r := hx.NewRand(run.Seed)
	// Section B first: when a helper of Section A is broken, the lint-level witness (a workspace and
	// the missing / unexpected annotation) is the first failing input, the string-level ones follow
	sectionB(run, r.Fork(2))
	if os.Getenv("C05_WS") == "" && !onlyNewFamilies {
		sectionA(run, r.Fork(1))
	}
	reportTiming()
	run.Finish()
}
