package main

// Part 12 of the C09 harness: LOCK-FILE HISTORIES (`--only 1000000+j` replays scenario j alone).
//
// Every other multi-writer part runs either under the harness's own lock (wlocker) or under the
// real file locker on FRESH lock files with holders that are never slow.  Here the REAL
// filelock.Locker (one instance per "process", lock timeout shortened through
// filelock.LockerWithLockTimeout, as bufcli builds it: cache files under v3/modules, lock files
// under v3/modulelocks) guards a cache directory ON DISK whose lock files have a HISTORY:
//
//   - the lock file of the key is absent / fresh / 59 min / 61 min / 2 h / 1 year old (os.Chtimes;
//     the directories as old as the file or fresh), left behind by an earlier lookup (a miss), by a
//     store that crashed or failed "yesterday" (lock file + torn entry) or by a complete store;
//   - a HOLDER keeps the lock LONGER than the lock timeout: writer A is held at a gate in the
//     middle of its store (before a Put / between two Writes / before a Close / before the marker
//     put / before the marker's Close) while it holds the exclusive lock; or a reader is held between
//     its RLock and its read of module.yaml (a shared holder);
//   - meanwhile CONTENDERS with their own locker instance (flock is per open file description: two
//     lockers of one process contend like two processes): a second store of the same key, readers
//     (GetModuleDatasForModuleKeys + every accessor + every file, as the provider does);
//   - optionally a WAITER with a long timeout that is serialised after the holder, becomes the
//     next slow holder, and is contended in turn;
//   - the holder then resumes, fails or crashes at that point (second gate: it stops once more);
//     readers that had VERIFIED the digest read every file again at each later moment; a late
//     writer and a late reader close the history.
//
// On a tree whose lock is a lock the contenders fail with the lock error (or are served after the
// holder); nothing here depends on a delay: every oracle reads the trace / the disk, gates decide
// the order.  A slow machine can only make a contender take longer to give up.
//
// The writers store through the tracing bucket of this file's siblings (tbucket) over a disk whose
// `mem` is a storageos bucket, so every oracle of enter() applies and the global history of model
// actions is replayed by the Lean step machine (`run` line: an acquire while another writer holds
// the lock is a no-op there, so the primitives of a second lock "holder" are no-ops as well and
// the end states disagree).  New oracle classes (implementation only):
//
//	lock-acquired-while-held   a Lock/RLock call returned success while another process provably
//	                           held the lock in a conflicting mode (exclusive vs anything)
//	lock-file-replaced         the inode at the lock path differs from the one a live holder
//	                           locked (or the file is gone): the direct witness of the family
//
// plus, at every observation, the existing wrong-content-served (also for readers that verified
// EARLIER and read again now), store-nil-but-no-hit, entry-modified-after-marker,
// write-without-exclusive-lock, write-after-store-returned, lock-held-after-store-returned.

import (
	"context"
	"fmt"
	"os"
	"path/filepath"
	"sort"
	"strings"
	"sync"
	"syscall"
	"time"

	"github.com/bufbuild/buf/private/bufpkg/bufmodule"
	"github.com/bufbuild/buf/private/bufpkg/bufmodule/bufmodulestore"
	"github.com/bufbuild/buf/private/pkg/filelock"
	"github.com/bufbuild/buf/private/pkg/storage"
	"github.com/bufbuild/buf/private/pkg/storage/storageos"
	"github.com/bufbuild/verifharness/internal/bk"
	"github.com/bufbuild/verifharness/internal/hx"
)

const lhBase = 1000000

const (
	lhShortTimeout = 250 * time.Millisecond // contenders: shorter than any hold
	lhLongTimeout  = 20 * time.Second       // holders, waiters, late writers: never the limiting factor
	lhRetryDelay   = 5 * time.Millisecond
	lhGateWait     = 20 * time.Second
)

type lhAge struct {
	name   string
	d      time.Duration
	absent bool
}

var lhAges = []lhAge{
	{"2h", 2 * time.Hour, false},
	{"fresh", 0, false},
	{"61min", 61 * time.Minute, false},
	{"59min", 59 * time.Minute, false},
	{"1year", 365 * 24 * time.Hour, false},
	{"absent", 0, true},
}

// lhDiskBucket: the cache directory as the tracing bucket's "disk": module.yaml is replaced
// atomically (the tracing bucket publishes an atomic object with one put at its Close), every
// other object the way os.Create does it.
type lhDiskBucket struct {
	storage.ReadWriteBucket
	marker string
}

func (b lhDiskBucket) Put(ctx context.Context, path string, opts ...storage.PutOption) (storage.WriteObjectCloser, error) {
	if path == b.marker {
		opts = append(opts, storage.PutWithAtomic())
	}
	return b.ReadWriteBucket.Put(ctx, path, opts...)
}

// lhGateRead: a reader's view of the cache directory that stops before reading one path.
type lhGateRead struct {
	storage.ReadWriteBucket
	path    string
	once    sync.Once
	reached chan struct{}
	release chan struct{}
}

func (g *lhGateRead) Get(ctx context.Context, path string) (storage.ReadObjectCloser, error) {
	if path == g.path {
		g.once.Do(func() {
			close(g.reached)
			<-g.release
		})
	}
	return g.ReadWriteBucket.Get(ctx, path)
}

func lhIno(path string) uint64 {
	fi, err := os.Stat(path)
	if err != nil {
		return 0
	}
	if st, ok := fi.Sys().(*syscall.Stat_t); ok {
		return st.Ino
	}
	return 0
}

// lhProc: one "process" as the lock sees it.
type lhProc struct {
	name    string
	tb      *tbucket // nil: a reader
	excl    bool     // holds the exclusive lock
	shared  bool     // holds a shared lock
	ino     uint64   // inode at the lock path when it acquired
	lockErr error    // a Lock/RLock call of it failed
	raw     filelock.Unlocker
	pc      string
	err     error
}

type lhEmit func(c caseCtx)

type lhScenario struct {
	j        int
	m        mod
	root     string
	cacheDir string
	lockDir  string
	lockFile string
	wd       *world
	procs    []*lhProc
	tbs      []*tbucket
	// under wd.d.mu:
	witness  []string // lock-acquired-while-held
	replaced []string // lock-file-replaced
	leaks    []string
	refused  int        // lock calls that failed
	emu      sync.Mutex // emit, moments (a slow reader reports from its own goroutine)
	emit     []lhEmit
	in       map[string]any
	moments  []string
	init     map[string]string // files written directly before the history starts
}

func (sc *lhScenario) add(e lhEmit) {
	sc.emu.Lock()
	sc.emit = append(sc.emit, e)
	sc.emu.Unlock()
}

func (sc *lhScenario) count(k string) {
	sc.add(func(c caseCtx) { c.run.Count("lockhist:" + k) })
}

func (sc *lhScenario) fail(class, what string, extra map[string]any) {
	// the scenario's description is complete only at its end: resolve it when the failure is emitted
	sc.add(func(c caseCtx) {
		in := map[string]any{}
		for k, v := range sc.in {
			in[k] = v
		}
		for k, v := range extra {
			in[k] = v
		}
		c.fail(class, what, in)
	})
}

// lhLocker: the REAL locker of one process, telling the trace who holds the real lock.
type lhLocker struct {
	sc   *lhScenario
	p    *lhProc
	real filelock.Locker
}

// liveHolders (d.mu held): the processes that provably hold the lock right now, other than p.
func (sc *lhScenario) liveHolders(p *lhProc, exclOnly bool) []*lhProc {
	var out []*lhProc
	for _, q := range sc.procs {
		if q == p {
			continue
		}
		if q.excl && q.tb != nil && !q.tb.dead && !q.tb.released {
			out = append(out, q)
		} else if q.shared && !exclOnly {
			out = append(out, q)
		}
	}
	return out
}

// checkLockFile (d.mu held): the lock file of every live holder is still THE file at the lock path.
func (sc *lhScenario) checkLockFile(when string) {
	now := lhIno(sc.lockFile)
	for _, q := range sc.procs {
		live := (q.excl && q.tb != nil && !q.tb.dead && !q.tb.released) || q.shared
		if live && q.ino != now {
			sc.replaced = append(sc.replaced, fmt.Sprintf("%s: %s holds the lock (%s) on inode %d, the lock path now names inode %d (0 = no file)",
				when, q.name, map[bool]string{true: "exclusive", false: "shared"}[q.excl], q.ino, now))
		}
	}
}

func (l *lhLocker) Lock(ctx context.Context, path string, opts ...filelock.LockOption) (filelock.Unlocker, error) {
	sc, p, d := l.sc, l.p, l.sc.wd.d
	u, err := l.real.Lock(ctx, path, opts...)
	if err != nil {
		d.mu.Lock()
		p.lockErr = err
		sc.refused++
		if p.tb != nil && len(sc.liveHolders(p, true)) > 0 {
			p.tb.act("a%d", p.tb.w) // the model's acquire while the lock is held: a no-op
		}
		d.mu.Unlock()
		return nil, err
	}
	d.mu.Lock()
	p.ino = lhIno(sc.lockFile)
	for _, q := range sc.liveHolders(p, false) {
		sc.witness = append(sc.witness, fmt.Sprintf("Lock of %s returned success (lock path inode %d) while %s held the lock (%s, inode %d)",
			p.name, p.ino, q.name, map[bool]string{true: "exclusive", false: "shared"}[q.excl], q.ino))
	}
	p.excl = true
	p.raw = u
	sc.checkLockFile("at the exclusive acquisition of " + p.name)
	b := p.tb
	b.acquired = true
	b.nAtLock = b.n
	b.act("a%d", b.w)
	d.mu.Unlock()
	return unlockFn(func() error {
		d.mu.Lock()
		sc.checkLockFile("at the unlock of " + p.name)
		if !b.dead && !b.committed && b.n > b.nAtLock {
			if b.markerTry {
				b.act("k%d", b.w)
			} else {
				b.act("x%d", b.w)
			}
		}
		b.released = true
		p.excl = false
		d.mu.Unlock()
		return u.Unlock()
	}), nil
}

func (l *lhLocker) RLock(ctx context.Context, path string, opts ...filelock.LockOption) (filelock.Unlocker, error) {
	sc, p, d := l.sc, l.p, l.sc.wd.d
	u, err := l.real.RLock(ctx, path, opts...)
	if err != nil {
		d.mu.Lock()
		p.lockErr = err
		sc.refused++
		if p.tb != nil && len(sc.liveHolders(p, true)) > 0 {
			p.tb.act("a%d", p.tb.w)
		}
		d.mu.Unlock()
		return nil, err
	}
	d.mu.Lock()
	p.ino = lhIno(sc.lockFile)
	for _, q := range sc.liveHolders(p, true) {
		sc.witness = append(sc.witness, fmt.Sprintf("RLock of %s returned success (lock path inode %d) while %s held the exclusive lock (inode %d)",
			p.name, p.ino, q.name, q.ino))
	}
	p.shared = true
	sc.checkLockFile("at the shared acquisition of " + p.name)
	d.mu.Unlock()
	return unlockFn(func() error {
		d.mu.Lock()
		sc.checkLockFile("at the shared unlock of " + p.name)
		p.shared = false
		d.mu.Unlock()
		return u.Unlock()
	}), nil
}

func (sc *lhScenario) locker(p *lhProc, timeout time.Duration) *lhLocker {
	real, err := filelock.NewLocker(sc.lockDir, filelock.LockerWithLockTimeout(timeout), filelock.LockerWithLockRetryDelay(lhRetryDelay))
	must(err)
	return &lhLocker{sc: sc, p: p, real: real}
}

func (sc *lhScenario) newWriter(name string, faults ...fkey) (*tbucket, *lhProc) {
	d := sc.wd.d
	d.mu.Lock()
	defer d.mu.Unlock()
	tb := d.writer_(len(sc.tbs), faults...)
	p := &lhProc{name: fmt.Sprintf("writer %d (%s)", tb.w, name), tb: tb}
	sc.tbs = append(sc.tbs, tb)
	sc.procs = append(sc.procs, p)
	return tb, p
}

// store: the REAL putModuleData of one process, under its own real locker.
func (sc *lhScenario) store(p *lhProc, timeout time.Duration) {
	d, tb := sc.wd.d, p.tb
	d.mu.Lock()
	tb.locking = true
	d.mu.Unlock()
	func() {
		defer func() {
			if r := recover(); r != nil {
				p.err = fmt.Errorf("panic: %v", r)
			}
		}()
		p.err = bufmodulestore.NewModuleDataStore(logger, tb, sc.locker(p, timeout)).PutModuleDatas(ctx, []bufmodule.ModuleData{sc.m.data})
	}()
	d.mu.Lock()
	leaked := p.excl && !tb.released
	if leaked {
		if !tb.dead {
			sc.leaks = append(sc.leaks, fmt.Sprintf("%s: its store returned (err=%v) without releasing the exclusive lock", p.name, p.err))
			if !tb.committed && tb.n > tb.nAtLock {
				tb.act("x%d", tb.w)
			}
		}
		tb.released = true
		p.excl = false
	}
	tb.returned = true
	switch {
	case tb.dead:
		p.pc = "crashed"
	case !tb.acquired && p.lockErr != nil:
		// gave up on the lock: in the model a writer that never acquired is still at `start`
		p.pc = "start"
	default:
		if !tb.acquired {
			tb.act("a%d", tb.w) // returned from the marker check under the shared lock
		}
		if p.err == nil {
			p.pc = "ok"
		} else {
			p.pc = "err"
		}
	}
	d.mu.Unlock()
	if leaked && p.raw != nil {
		p.raw.Unlock()
	}
}

func (sc *lhScenario) start(p *lhProc, timeout time.Duration) chan struct{} {
	done := make(chan struct{})
	go func() {
		defer close(done)
		sc.store(p, timeout)
	}()
	return done
}

// atGate waits until the writer's copy jobs all sit at gates (at least one) or its store returns.
func (sc *lhScenario) atGate(tb *tbucket, done chan struct{}) string {
	deadline := time.Now().Add(lhGateWait)
	stable := 0
	for {
		select {
		case <-done:
			return "returned"
		default:
		}
		sc.wd.d.mu.Lock()
		ok := tb.waiting > 0 && tb.active == tb.waiting
		sc.wd.d.mu.Unlock()
		if ok {
			stable++
			if stable >= 3 {
				return "gate"
			}
		} else {
			stable = 0
		}
		if time.Now().After(deadline) {
			return "timeout"
		}
		time.Sleep(200 * time.Microsecond)
	}
}

// a reader: what a buf process that looks the key up gets, and — if the digest check passed — the
// bucket it goes on reading from.
type lhReading struct {
	name     string
	when     string
	class    string
	files    map[string]string
	verified storage.ReadBucket
}

func (sc *lhScenario) read(name, when string, timeout time.Duration, gate *lhGateRead) *lhReading {
	p := &lhProc{name: name}
	sc.wd.d.mu.Lock()
	sc.procs = append(sc.procs, p)
	sc.wd.d.mu.Unlock()
	var bucket storage.ReadWriteBucket
	bucket, err := storageos.NewProvider().NewReadWriteBucket(sc.cacheDir)
	must(err)
	if gate != nil {
		gate.ReadWriteBucket = bucket
		bucket = gate
	}
	rd := &lhReading{name: name, when: when}
	store := bufmodulestore.NewModuleDataStore(logger, bucket, sc.locker(p, timeout))
	found, notFound, err := store.GetModuleDatasForModuleKeys(ctx, []bufmodule.ModuleKey{sc.m.key})
	switch {
	case err != nil:
		rd.class = "error:" + err.Error()
	case len(found) == 0 && len(notFound) == 1:
		rd.class = "miss"
		if p.lockErr != nil {
			rd.class = "miss(lock-refused)"
		}
	case len(found) != 1:
		rd.class = "error:found/notfound inconsistent"
	default:
		rd.class, rd.files = classifyData(found[0])
		if rd.class == "hit" {
			if fb, err := found[0].Bucket(); err == nil {
				rd.verified = fb
			}
		}
	}
	sc.count("read=" + strings.SplitN(rd.class, ":", 2)[0])
	switch {
	case rd.class == "hit":
		if !sameFiles(rd.files, sc.m.files) {
			sc.fail("wrong-content-served", fmt.Sprintf("%s (%s): the load returned files %v with other content than the key pins", name, when, keysOf(rd.files)),
				map[string]any{"reader": name, "moment": when})
		}
	case strings.HasPrefix(rd.class, "miss"), rd.class == "mismatch":
	case strings.HasPrefix(rd.class, "error:accessors-disagree"):
		sc.fail("accessor-skips-digest-check", name+": "+rd.class, nil)
	default:
		sc.fail("load-other-error", fmt.Sprintf("%s (%s): load returned %s", name, when, rd.class), nil)
	}
	return rd
}

// reread: a reader that verified the digest earlier goes on reading its files now.
func (sc *lhScenario) reread(rds []*lhReading, now string) {
	for _, rd := range rds {
		if rd == nil || rd.verified == nil {
			continue
		}
		kvs, err := bk.WalkAll(ctx, rd.verified, "")
		if err != nil {
			sc.count("reread=error")
			continue
		}
		got := map[string]string{}
		for _, kv := range kvs {
			got[kv.K] = kv.V
		}
		sc.count("reread=" + b01(sameFiles(got, sc.m.files)))
		if !sameFiles(got, sc.m.files) {
			var diff []string
			for _, f := range keysOf(sc.m.files) {
				if got[f] != sc.m.files[f] {
					diff = append(diff, fmt.Sprintf("%s: %d of %d bytes", f, len(got[f]), len(sc.m.files[f])))
				}
			}
			sc.fail("wrong-content-served", fmt.Sprintf("%s verified the digest of the cached module (%s) and then, %s, silently read other content: %v",
				rd.name, rd.when, now, diff), map[string]any{"reader": rd.name, "verified_at": rd.when, "read_again_at": now})
		}
	}
}

// observe: one moment of the history — the entry as a fresh reader finds it (model `load` line +
// oracle) and the identity of the lock file.
func (sc *lhScenario) observe(how string, anyOK bool) string {
	d := sc.wd.d
	d.mu.Lock()
	entry := entryOf(d.mem, sc.m)
	sc.checkLockFile(how)
	hist := strings.Join(d.hist, ",")
	d.mu.Unlock()
	class, files := loadReal(bucketOf(sc.m, entry), sc.m, false)
	sc.emu.Lock()
	sc.moments = append(sc.moments, how+"="+strings.SplitN(class, ":", 2)[0])
	sc.emu.Unlock()
	sc.add(func(c caseCtx) { c.judge(entry, "lockhist: "+how, nil) })
	if anyOK && !(class == "hit" && sameFiles(files, sc.m.files)) {
		sc.fail("store-nil-but-no-hit", fmt.Sprintf("%s: a store returned nil but the entry now loads as %s", how, class),
			map[string]any{"moment": how, "history": hist, "entry_paths": keysOf(entry)})
	}
	return class
}

func (sc *lhScenario) anyOK() bool {
	sc.wd.d.mu.Lock()
	defer sc.wd.d.mu.Unlock()
	for _, p := range sc.procs {
		if p.tb != nil && p.pc == "ok" {
			return true
		}
	}
	return false
}

// age: every file (and, unless dirFresh, every directory) of the cache and of the lock directory
// gets the given age; age.absent removes the lock files.
func (sc *lhScenario) age(a lhAge, dirFresh bool) {
	if a.absent {
		must(os.RemoveAll(sc.lockDir))
		must(os.MkdirAll(sc.lockDir, 0o755))
		return
	}
	t := time.Now().Add(-a.d)
	var dirs []string
	for _, root := range []string{sc.cacheDir, sc.lockDir} {
		must(filepath.Walk(root, func(path string, info os.FileInfo, err error) error {
			if err != nil {
				return err
			}
			if info.IsDir() {
				dirs = append(dirs, path)
				return nil
			}
			return os.Chtimes(path, t, t)
		}))
	}
	// directories last (creating nothing afterwards), deepest first
	sort.Sort(sort.Reverse(sort.StringSlice(dirs)))
	for _, dir := range dirs {
		if dirFresh {
			now := time.Now()
			must(os.Chtimes(dir, now, now))
		} else {
			must(os.Chtimes(dir, t, t))
		}
	}
}

type lhGatePlan struct {
	keys  []fkey // level i is held before keys[i]
	descr []string
}

// gatePlan: where a holder stops (while holding the exclusive lock): before a Put, between two
// Writes, before a Close of a file / side file, before the marker put or before the marker's Close;
// with probability 1/2 it stops once more at a later primitive of the same object.
func lhGates(r *hx.Rand, m mod, keys []fkey, canon bool) lhGatePlan {
	perPath := map[string][]fkey{}
	var paths []string
	for _, k := range keys {
		if _, ok := perPath[k.path]; !ok {
			paths = append(paths, k.path)
		}
		perPath[k.path] = append(perPath[k.path], k)
	}
	var plan lhGatePlan
	add := func(k fkey) {
		plan.keys = append(plan.keys, k)
		plan.descr = append(plan.descr, fmt.Sprintf("%c#%d of %s", k.kind, k.idx, strings.TrimPrefix(k.path, m.dirPath+"/")))
	}
	if canon {
		// the canonical shape: before the Put of a module file, then before its first Write
		ks := perPath[paths[0]]
		add(ks[0])
		add(ks[1])
		return plan
	}
	var ks []fkey
	switch r.Intn(5) {
	case 0: // the marker
		ks = perPath[m.dirPath+"/module.yaml"]
	default:
		ks = perPath[hx.Pick(r, paths)]
	}
	a := 0
	switch r.Intn(3) {
	case 1:
		if len(ks) > 2 {
			a = 1 + r.Intn(len(ks)-2)
		}
	case 2:
		a = len(ks) - 1
	}
	add(ks[a])
	if a+1 < len(ks) && r.Chance(1, 2) {
		add(ks[a+1+r.Intn(len(ks)-a-1)])
	}
	return plan
}

func (p lhGatePlan) install(tb *tbucket) {
	tb.gates = map[fkey]int{}
	tb.levels = nil
	for i, k := range p.keys {
		tb.gates[k] = i
		tb.levels = append(tb.levels, make(chan struct{}))
	}
}

// lhPrior: what earlier buf runs left behind.
func (sc *lhScenario) prior(r *hx.Rand, kind string, keys []fkey) {
	lookup := func() {
		sc.read("reader (earlier lookup)", "before anything was stored", lhLongTimeout, nil)
	}
	switch kind {
	case "lookup":
		lookup()
	case "crashed-store":
		tb, p := sc.newWriter("earlier store, killed")
		tb.crashAt = 1 + r.Intn(len(keys)-1)
		sc.store(p, lhLongTimeout)
	case "failed-store":
		_, p := sc.newWriter("earlier store, failed", hx.Pick(r, keys))
		sc.store(p, lhLongTimeout)
	case "complete-store":
		_, p := sc.newWriter("earlier store")
		sc.store(p, lhLongTimeout)
	case "torn-leftover":
		// files written directly (what any number of interrupted stores may have left), then a lookup
		init, k := genInit(r, sc.m)
		for try := 0; try < 6 && (k == "complete" || k == "torn+unparsable-marker"); try++ {
			init, k = genInit(r, sc.m)
		}
		if k == "complete" || k == "torn+unparsable-marker" {
			init = map[string]string{}
		}
		for p, c := range init {
			must(bk.PutString(ctx, sc.wd.d.mem, sc.m.dirPath+"/"+p, c))
		}
		sc.in["leftover"] = k
		sc.init = init
		lookup()
	}
}

func lhScenarioRun(seed uint64, j int, tmpRoot string) (res []lhEmit, m mod) {
	r := hx.NewRand(seed).Fork(0x10c4157).Fork(uint64(j))
	mods := genModules(r, 900000+j)
	m = mods[1]
	root := filepath.Join(tmpRoot, fmt.Sprintf("lh%d", j))
	sc := &lhScenario{j: j, m: m, root: root,
		cacheDir: filepath.Join(root, "v3", "modules"), lockDir: filepath.Join(root, "v3", "modulelocks")}
	sc.lockFile = filepath.Join(sc.lockDir, filepath.FromSlash(m.dirPath)+".lock")
	must(os.MkdirAll(sc.cacheDir, 0o755))
	must(os.MkdirAll(sc.lockDir, 0o755))
	defer os.RemoveAll(root)
	osb, err := storageos.NewProvider().NewReadWriteBucket(sc.cacheDir)
	must(err)
	sc.wd = newWorldOn(lhDiskBucket{osb, m.dirPath + "/module.yaml"}, m, nil)
	keys := faultKeys(m)

	// stratified by index: every run has every age and every kind
	age := lhAges[j%len(lhAges)]
	kind := "writer-holds"
	switch j % 7 {
	case 5:
		kind = "reader-holds"
	case 6:
		kind = "waiter-takes-over"
	}
	dirFresh := r.Chance(1, 3)
	var priors []string
	switch kind {
	case "reader-holds":
		priors = []string{"lookup", "crashed-store", "torn-leftover", "complete-store"}
		if (j/7)%2 == 0 {
			priors = priors[:3] // every other one: the contending store has work to do
		}
	default:
		priors = []string{"lookup", "lookup", "crashed-store", "failed-store", "torn-leftover"}
	}
	priorKind := hx.Pick(r, priors)
	canon := j == 0
	if canon {
		priorKind, dirFresh = "lookup", false
	}
	sc.in = map[string]any{"part": "lockhist", "scenario": j, "kind": kind, "lock_file_age": age.name, "directories_fresh": dirFresh,
		"earlier": priorKind, "lock_file": strings.TrimPrefix(sc.lockFile, root+"/"), "contender_lock_timeout": lhShortTimeout.String(),
		"module_files": keysOf(m.files)}
	sc.count("kind=" + kind)
	sc.count("age=" + age.name)
	sc.count("earlier=" + priorKind)
	sc.count("dirs-fresh=" + b01(dirFresh))

	sc.prior(r, priorKind, keys)
	if lhIno(sc.lockFile) == 0 {
		// not a violation by itself (a tree may name or clean up its lock files differently); the
		// inode comparisons below then see "no file" on both sides
		sc.count("lock-file-not-at-expected-path-after-earlier-run")
	}
	sc.age(age, dirFresh)

	var verified []*lhReading
	nReader := 0
	reader := func(when string, timeout time.Duration) *lhReading {
		nReader++
		rd := sc.read(fmt.Sprintf("reader %d", nReader), when, timeout, nil)
		verified = append(verified, rd)
		return rd
	}
	var contenderLog []string
	// contenders: processes that meet a live holder; each runs to its end
	contend := func(when string, script []string) {
		for _, what := range script {
			switch what {
			case "store":
				_, p := sc.newWriter("contender " + when)
				before := sc.refusedNow()
				<-sc.start(p, lhShortTimeout)
				contenderLog = append(contenderLog, fmt.Sprintf("%s, %s: pc=%s err=%v", p.name, when, p.pc, p.err != nil))
				sc.count("contender-store=" + p.pc + map[bool]string{true: "(lock-refused)", false: ""}[sc.refusedNow() > before])
			case "read":
				rd := reader(when, lhShortTimeout)
				contenderLog = append(contenderLog, fmt.Sprintf("%s, %s: %s", rd.name, when, strings.SplitN(rd.class, ":", 2)[0]))
			}
			sc.reread(verified, "after the "+what+" "+when)
		}
	}
	scripts := [][]string{{"store", "read"}, {"store", "read"}, {"read", "store", "read"}, {"store"}, {"read"}, {"store", "store", "read"}}
	pickScript := func() []string {
		if canon {
			return scripts[0]
		}
		return hx.Pick(r, scripts)
	}

	// hold: the holder stops at its gates; at every stop the contenders run; it ends as planned.
	hold := func(tb *tbucket, p *lhProc, done chan struct{}, plan lhGatePlan, ending string, endAt int, who string, between func()) {
		for lvl := range plan.keys {
			switch sc.atGate(tb, done) {
			case "gate":
				sc.count(who + "-stalled-holding-lock")
				when := fmt.Sprintf("while %s is held before %s", p.name, plan.descr[lvl])
				sc.reread(verified, "once "+p.name+" had gone on and was held before "+plan.descr[lvl])
				contend(when, pickScript())
				sc.observe(when, sc.anyOK())
				if between != nil && (lvl == len(plan.keys)-1 || (lvl == endAt && ending != "resume")) {
					between() // the waiter arrives while the holder still holds
					between = nil
				}
				if lvl == endAt {
					sc.wd.d.mu.Lock()
					switch ending {
					case "fault":
						tb.faults[plan.keys[lvl]] = true
					case "crash":
						tb.crashAt = tb.n
					}
					sc.wd.d.mu.Unlock()
				}
			case "timeout":
				sc.count(who + "-never-reached-gate")
			case "returned":
				sc.count(who + "-returned-before-gate")
			}
			tb.release(lvl)
		}
		<-done
		sc.reread(verified, "after "+p.name+" returned ("+p.pc+")")
		sc.observe("after "+p.name+" returned ("+p.pc+")", sc.anyOK())
	}
	endings := []string{"resume", "resume", "fault", "crash"}

	switch kind {
	case "writer-holds", "waiter-takes-over":
		plan := lhGates(r, m, keys, canon)
		ending := hx.Pick(r, endings)
		if kind == "waiter-takes-over" {
			ending = hx.Pick(r, []string{"fault", "crash", "fault", "resume"})
		}
		if canon {
			ending = "resume"
		}
		endAt := r.Intn(len(plan.keys))
		tbA, pA := sc.newWriter("slow holder")
		plan.install(tbA)
		sc.in["holder"] = map[string]any{"writer": tbA.w, "held_before": plan.descr, "then": ending, "at_stop": endAt}
		sc.count("holder-ending=" + ending)
		sc.count("holder-stops=" + fmt.Sprint(len(plan.keys)))
		for _, k := range plan.keys {
			what := string(k.kind)
			if k.path == m.dirPath+"/module.yaml" {
				what = "marker-" + what
			}
			sc.count("holder-held-before=" + what)
		}
		doneA := sc.start(pA, lhLongTimeout)
		var doneW chan struct{}
		var tbW *tbucket
		var pW *lhProc
		var planW lhGatePlan
		var between func()
		if kind == "waiter-takes-over" {
			// a process that WAITS for the holder (long timeout) and then is slow itself
			planW = lhGates(r, m, keys, false)
			planW.keys, planW.descr = planW.keys[:1], planW.descr[:1]
			between = func() {
				tbW, pW = sc.newWriter("waiter, then slow holder")
				planW.install(tbW)
				doneW = sc.start(pW, lhLongTimeout)
				time.Sleep(8 * lhRetryDelay) // let it run into the lock (not a correctness criterion)
			}
			sc.in["waiter"] = map[string]any{"held_before": planW.descr}
		}
		hold(tbA, pA, doneA, plan, ending, endAt, "holder", between)
		if doneW != nil {
			hold(tbW, pW, doneW, planW, "resume", 0, "waiter", nil)
		}
	case "reader-holds":
		// a reader between its RLock and its read of module.yaml; a writer meets the shared lock
		g := &lhGateRead{path: m.dirPath + "/module.yaml", reached: make(chan struct{}), release: make(chan struct{})}
		var rd0 *lhReading
		done := make(chan struct{})
		go func() {
			defer close(done)
			rd0 = sc.read("reader 0 (slow, holds the shared lock)", "held between RLock and its read of module.yaml", lhLongTimeout, g)
		}()
		select {
		case <-g.reached:
			sc.count("reader-stalled-holding-shared-lock")
			when := "while reader 0 holds the shared lock"
			contend(when, pickScript())
			sc.observe(when, sc.anyOK())
		case <-done:
			sc.count("reader-returned-before-gate")
		case <-time.After(lhGateWait):
			sc.count("reader-never-reached-gate")
		}
		close(g.release)
		<-done
		verified = append(verified, rd0)
		sc.reread(verified, "after reader 0 returned")
	}

	// the history ends: a late writer (never short of time) and a late reader
	_, pL := sc.newWriter("late writer")
	<-sc.start(pL, lhLongTimeout)
	sc.count("late-writer=" + pL.pc)
	sc.reread(verified, "after the late writer returned ("+pL.pc+")")
	late := reader("after the late writer returned", lhLongTimeout)
	anyOK := sc.anyOK()
	sc.observe("at the end of the history", anyOK)
	if anyOK && late.class != "hit" {
		sc.fail("store-nil-but-no-hit", fmt.Sprintf("a store returned nil but the late reader (real locker, disk) got %s", late.class), nil)
	}

	// the trace oracles and the model's verdict on the whole history
	d := sc.wd.d
	d.mu.Lock()
	hist := append([]string{}, d.hist...)
	entry := entryOf(d.mem, m)
	lateP := append([]string{}, d.late...)
	unlocked := append([]string{}, d.unlocked...)
	afterValid := append([]string{}, d.afterValid...)
	witness := append([]string{}, sc.witness...)
	replaced := append([]string{}, sc.replaced...)
	leaks := append([]string{}, sc.leaks...)
	refused := sc.refused
	pcs := make([]string, len(sc.tbs))
	for _, p := range sc.procs {
		if p.tb != nil {
			pcs[p.tb.w] = p.pc
		}
	}
	d.mu.Unlock()
	sc.in["history"] = strings.Join(hist, ",")
	sc.in["pcs"] = pcs
	sc.in["contenders"] = contenderLog
	sc.in["moments"] = sc.moments
	line, out := sc.wd.runLine(sc.init, len(pcs), hist), implRunOut(m, entry, pcs)
	sc.add(func(c caseCtx) { c.run.Case(line, out, true) })
	sc.add(func(c caseCtx) { c.run.CountN("lockhist:lock-calls-refused", refused) })
	for _, pc := range pcs {
		sc.count("pc=" + pc)
	}
	if len(replaced) > 0 {
		sc.fail("lock-file-replaced", fmt.Sprintf("the lock file of the key (%s old) was replaced while a process held the lock on it: %v", age.name, replaced), nil)
	}
	if len(witness) > 0 {
		sc.fail("lock-acquired-while-held", fmt.Sprintf("lock file %s old: %v", age.name, witness), nil)
	}
	if len(unlocked) > 0 {
		sc.fail("write-without-exclusive-lock", fmt.Sprintf("primitives issued by a writer that did not hold the exclusive lock of the entry: %v", unlocked), nil)
	}
	if len(lateP) > 0 {
		sc.fail("write-after-store-returned", fmt.Sprintf("primitives of a writer recorded after its store had returned: %v", lateP), nil)
	}
	if len(leaks) > 0 {
		sc.fail("lock-held-after-store-returned", fmt.Sprint(leaks), nil)
	}
	if len(afterValid) > 0 {
		sc.fail("entry-modified-after-marker", fmt.Sprintf("a writer modified the entry while it carried a valid marker (readers stream without the lock): %v", afterValid), nil)
	}
	return sc.emit, m
}

func (sc *lhScenario) refusedNow() int {
	sc.wd.d.mu.Lock()
	defer sc.wd.d.mu.Unlock()
	return sc.refused
}

// partLockHist runs the scenarios (several at a time, each on its own cache directory) and emits
// their lines, counters and failures in scenario order.
func partLockHist(run *hx.Run, tmpRoot string) {
	n := run.N(14, 210)
	var js []int
	for j := 0; j < n; j++ {
		if run.Only >= 0 && run.Only != lhBase+j {
			continue
		}
		js = append(js, j)
	}
	if run.Only >= 0 && len(js) == 0 {
		return
	}
	chance.mu.Lock()
	chance.curCase = lhBase
	chance.mu.Unlock()
	type result struct {
		emit []lhEmit
		m    mod
		err  any
	}
	results := make([]result, len(js))
	const batch = 7
	for lo := 0; lo < len(js); lo += batch {
		hi := lo + batch
		if hi > len(js) {
			hi = len(js)
		}
		var wg sync.WaitGroup
		for k := lo; k < hi; k++ {
			wg.Add(1)
			go func(k int) {
				defer wg.Done()
				defer func() {
					if p := recover(); p != nil {
						results[k].err = p
					}
				}()
				results[k].emit, results[k].m = lhScenarioRun(run.Seed, js[k], tmpRoot)
			}(k)
		}
		wg.Wait()
	}
	for k, res := range results {
		c := caseCtx{run, lhBase + js[k], res.m, "lockhist"}
		if res.err != nil {
			run.Fail(hx.OracleFailure{Class: "harness-panic", What: fmt.Sprint(res.err), Input: map[string]any{"part": "lockhist", "scenario": js[k]},
				Replay: fmt.Sprintf("build/c09 --out /tmp/c09-replay --seed %d --tier %s --only %d", run.Seed, run.Tier, lhBase+js[k])})
			continue
		}
		for _, e := range res.emit {
			e(c)
		}
		run.Count("lockhist:scenarios")
	}
}
