// Command c09 is the correspondence + oracle harness for property C09 ("the module cache
// never serves wrong content: crashes, faults, races, tampering").
//
//  1. crash points: the real store runs on a tracing bucket; for EVERY prefix of the recorded
//     primitive trace the entry state a crash would leave (os.Create semantics for plain puts,
//     all-or-nothing for the atomic marker / tar) is materialised, the real reader loads it,
//     and the Lean model judges the same state; then a further fault-free store must repair it.
//  2. faults: every single (thorough: every pair of) failing Put/Write/Close during the store.
//  3. tampering: every single-file flip / truncate / delete / add / rename of a complete entry,
//     marker deletion / garbage / other-deps.
//  4. tar layout: absent, garbage, truncated, tampered-inside archives.
//  5. concurrency: N goroutines store and load one key on a disk bucket with the real file
//     locker and seeded yields at the verif hook points.
//  6. the cache provider with a store that loses writes.
//
// Oracle (implementation only): a load is "not cached", content whose files equal the pinned
// content, or a digest-mismatch error — never other content; store returned nil ⇒ next load is a
// hit; a failed/interrupted store is never a hit by itself; a later store repairs.
package main

import (
	"bytes"
	"context"
	"errors"
	"fmt"
	"io"
	"log/slog"
	"os"
	"os/exec"
	"path/filepath"
	"runtime"
	"sort"
	"strconv"
	"strings"
	"sync"
	"syscall"
	"time"

	"github.com/bufbuild/buf/private/bufpkg/bufmodule"
	"github.com/bufbuild/buf/private/bufpkg/bufmodule/bufmodulecache"
	"github.com/bufbuild/buf/private/bufpkg/bufmodule/bufmodulestore"
	"github.com/bufbuild/buf/private/bufpkg/bufmodule/bufmoduletesting"
	"github.com/bufbuild/buf/private/bufpkg/bufparse"
	"github.com/bufbuild/buf/private/pkg/filelock"
	"github.com/bufbuild/buf/private/pkg/normalpath"
	"github.com/bufbuild/buf/private/pkg/storage"
	"github.com/bufbuild/buf/private/pkg/storage/storagearchive"
	"github.com/bufbuild/buf/private/pkg/storage/storagemem"
	"github.com/bufbuild/buf/private/pkg/storage/storageos"
	"github.com/bufbuild/buf/private/pkg/thread"
	"github.com/bufbuild/buf/private/pkg/uuidutil"
	"github.com/bufbuild/buf/private/pkg/verifhook"
	"github.com/bufbuild/verifharness/internal/bk"
	"github.com/bufbuild/verifharness/internal/hx"
	"github.com/google/uuid"
)

var ctx = context.Background()
var logger = slog.New(slog.NewTextHandler(io.Discard, nil))

func must(err error) {
	if err != nil {
		panic(err)
	}
}

// ---------------------------------------------------------------------------------------
// tracing / fault-injecting ReadWriteBucket

type prim struct {
	kind   byte // p w c
	path   string
	idx    int
	atomic bool
	data   string // for w
}

func (p prim) String() string {
	return fmt.Sprintf("%c(%s#%d atomic=%v)", p.kind, p.path, p.idx, p.atomic)
}

var errInjected = errors.New("injected fault")

type tbucket struct {
	storage.ReadBucket
	delegate storage.ReadWriteBucket
	mu       sync.Mutex
	trace    []prim
	faults   map[int]bool // position in trace (sequential runs only)
	fired    int
	drop     bool // lose every write silently (for the provider check)
}

func newT(delegate storage.ReadWriteBucket, faults ...int) *tbucket {
	m := map[int]bool{}
	for _, f := range faults {
		m[f] = true
	}
	return &tbucket{ReadBucket: delegate, delegate: delegate, faults: m}
}

func (b *tbucket) hit(p prim) bool {
	b.mu.Lock()
	defer b.mu.Unlock()
	pos := len(b.trace)
	b.trace = append(b.trace, p)
	if b.faults[pos] {
		b.fired++
		return true
	}
	return false
}

func (b *tbucket) Put(ctx context.Context, path string, opts ...storage.PutOption) (storage.WriteObjectCloser, error) {
	atomic := storage.NewPutOptions(opts).Atomic()
	if b.hit(prim{kind: 'p', path: path, atomic: atomic}) {
		return nil, errInjected
	}
	if b.drop {
		return &tobj{b: b, path: path, atomic: atomic}, nil
	}
	w, err := b.delegate.Put(ctx, path, opts...)
	if err != nil {
		return nil, err
	}
	return &tobj{b: b, path: path, atomic: atomic, w: w}, nil
}
func (b *tbucket) Delete(ctx context.Context, path string) error { return b.delegate.Delete(ctx, path) }
func (b *tbucket) DeleteAll(ctx context.Context, prefix string) error {
	return b.delegate.DeleteAll(ctx, prefix)
}
func (b *tbucket) SetExternalAndLocalPathsSupported() bool { return false }

type tobj struct {
	b      *tbucket
	path   string
	atomic bool
	w      storage.WriteObjectCloser
	n      int
}

func (o *tobj) Write(p []byte) (int, error) {
	i := o.n
	o.n++
	if o.b.hit(prim{kind: 'w', path: o.path, idx: i, atomic: o.atomic, data: string(p)}) {
		return 0, errInjected
	}
	if o.w == nil {
		return len(p), nil
	}
	return o.w.Write(p)
}
func (o *tobj) Close() error {
	if o.b.hit(prim{kind: 'c', path: o.path, atomic: o.atomic}) {
		if o.w != nil {
			o.w.Close()
		}
		return errInjected
	}
	if o.w == nil {
		return nil
	}
	return o.w.Close()
}
func (o *tobj) SetExternalPath(string) error { return storage.ErrSetExternalPathUnsupported }
func (o *tobj) SetLocalPath(string) error    { return storage.ErrSetLocalPathUnsupported }

// ---------------------------------------------------------------------------------------
// a generated module

type mod struct {
	key      bufmodule.ModuleKey
	data     bufmodule.ModuleData
	files    map[string]string // module files (path relative to files/) -> content
	sides    map[string]string // entry-relative side file path -> content
	dirPath  string            // entry directory inside the cache bucket
	tarPath  string
	canon    string // canonical module.yaml bytes (from a clean store)
	otherDep string // valid module.yaml with a different dep digest ("" if no deps)
}

func entryDir(key bufmodule.ModuleKey) string {
	d, err := key.Digest()
	must(err)
	return normalpath.Join(d.Type().String(), key.FullName().Registry(), key.FullName().Owner(), key.FullName().Name(), uuidutil.ToDashless(key.CommitID()))
}

func genModules(r *hx.Rand, i int) []mod {
	// two modules, the second importing the first (so it has a dep), extra non-module files,
	// sometimes v1 side files.
	depFiles := map[string][]byte{
		"dep/d.proto": []byte("syntax = \"proto3\"; package dep; message D" + strconv.Itoa(i) + " {}"),
	}
	files := map[string][]byte{
		"a/a.proto": []byte("syntax = \"proto3\"; package a; import \"dep/d.proto\"; message A { dep.D" + strconv.Itoa(i) + " d = 1; }"),
	}
	n := r.Intn(4)
	for j := 0; j < n; j++ {
		files["a/f"+strconv.Itoa(j)+".proto"] = []byte("syntax = \"proto3\"; package a; message F" + strconv.Itoa(j) + "x" + strconv.Itoa(r.Intn(1000)) + " {}")
	}
	if r.Chance(1, 2) {
		files["LICENSE"] = []byte("license " + strconv.Itoa(r.Intn(100)))
	}
	if r.Chance(1, 2) {
		files["buf.md"] = []byte("# docs " + strconv.Itoa(r.Intn(100)))
	}
	mds := []bufmoduletesting.ModuleData{
		// fixed commit ids: the testing helper otherwise invents random ones, and the kill
		// campaign's child processes must regenerate exactly the same keys
		{Name: "buf.build/acme/dep", CommitID: uuid.NewSHA1(uuid.NameSpaceURL, []byte("dep"+strconv.Itoa(i))), PathToData: depFiles},
		{Name: "buf.build/acme/main", CommitID: uuid.NewSHA1(uuid.NameSpaceURL, []byte("main"+strconv.Itoa(i))), PathToData: files},
	}
	if r.Chance(1, 2) {
		y, err := bufmodule.NewObjectData("buf.yaml", []byte("version: v1\nname: buf.build/acme/main\n"))
		must(err)
		mds[1].BufYAMLObjectData = y
		if r.Chance(1, 2) {
			l, err := bufmodule.NewObjectData("buf.lock", []byte("version: v1\n"))
			must(err)
			mds[1].BufLockObjectData = l
		}
	}
	omni, err := bufmoduletesting.NewOmniProvider(mds...)
	must(err)
	var out []mod
	for _, name := range []string{"dep", "main"} {
		ref, err := bufparse.NewRef("buf.build", "acme", name, "")
		must(err)
		keys, err := omni.GetModuleKeysForModuleRefs(ctx, []bufparse.Ref{ref}, bufmodule.DigestTypeB5)
		must(err)
		datas, err := omni.GetModuleDatasForModuleKeys(ctx, keys)
		must(err)
		m := mod{key: keys[0], data: datas[0], files: map[string]string{}, sides: map[string]string{}}
		b, err := datas[0].Bucket()
		must(err)
		kvs, err := bk.WalkAll(ctx, b, "")
		must(err)
		for _, kv := range kvs {
			m.files[kv.K] = kv.V
		}
		if od, err := datas[0].V1Beta1OrV1BufYAMLObjectData(); err == nil && od != nil {
			m.sides["v1_buf_yaml/"+od.Name()] = string(od.Data())
		}
		if od, err := datas[0].V1Beta1OrV1BufLockObjectData(); err == nil && od != nil {
			m.sides["v1_buf_lock/"+od.Name()] = string(od.Data())
		}
		m.dirPath = entryDir(keys[0])
		m.tarPath = m.dirPath + ".tar"
		// canonical marker from a clean store
		clean := storagemem.NewReadWriteBucket()
		must(bufmodulestore.NewModuleDataStore(logger, clean, filelock.NewNopLocker()).PutModuleDatas(ctx, datas))
		c, err := bk.ReadAll(ctx, clean, m.dirPath+"/module.yaml")
		must(err)
		m.canon = c
		if idx := strings.Index(c, "digest: b5:"); idx >= 0 {
			// flip one hex digit of the first dep digest: still a valid marker, other deps
			pos := idx + len("digest: b5:")
			ch := c[pos]
			repl := byte('0')
			if ch == '0' {
				repl = '1'
			}
			m.otherDep = c[:pos] + string(repl) + c[pos+1:]
		}
		out = append(out, m)
	}
	return out
}

// ---------------------------------------------------------------------------------------
// states, loading, classification

// entryOf extracts the entry (relative path -> content) of module m from a cache bucket.
func entryOf(b storage.ReadBucket, m mod) map[string]string {
	out := map[string]string{}
	kvs, err := bk.WalkAll(ctx, b, m.dirPath)
	must(err)
	for _, kv := range kvs {
		out[strings.TrimPrefix(kv.K, m.dirPath+"/")] = kv.V
	}
	return out
}

func bucketOf(m mod, entry map[string]string) storage.ReadWriteBucket {
	b := storagemem.NewReadWriteBucket()
	for p, c := range entry {
		must(bk.PutString(ctx, b, m.dirPath+"/"+p, c))
	}
	return b
}

var tokens = map[string]string{}
var tokMu sync.Mutex

// tokenOf abstracts file contents to short tokens (stable within a run).
func tokenOf(c string) string {
	if c == "" {
		return "-"
	}
	tokMu.Lock()
	defer tokMu.Unlock()
	if t, ok := tokens[c]; ok {
		return t
	}
	t := "T" + strconv.Itoa(len(tokens))
	tokens[c] = t
	return t
}

func markerToken(m mod, c string) string {
	switch {
	case c == m.canon:
		return "M:canonical"
	case m.otherDep != "" && c == m.otherDep:
		return "M:otherdeps"
	default:
		return "Minvalid" + strconv.Itoa(len(c))
	}
}

func encObjs(m map[string]string, tok func(p, c string) string) string {
	if len(m) == 0 {
		return "-"
	}
	keys := make([]string, 0, len(m))
	for k := range m {
		keys = append(keys, k)
	}
	sort.Strings(keys)
	parts := make([]string, len(keys))
	for i, k := range keys {
		parts[i] = hx.Enc(k) + "=" + tok(k, m[k])
	}
	return strings.Join(parts, ",")
}

func plainTok(_, c string) string { return tokenOf(c) }

func entryEnc(m mod, entry map[string]string) string {
	return encObjs(entry, func(p, c string) string {
		if p == "module.yaml" {
			return markerToken(m, c)
		}
		return tokenOf(c)
	})
}

// loadReal runs the real reader on a cache bucket and classifies the outcome.
func loadReal(b storage.ReadWriteBucket, m mod, tar bool) (class string, files map[string]string) {
	var opts []bufmodulestore.ModuleDataStoreOption
	if tar {
		opts = append(opts, bufmodulestore.ModuleDataStoreWithTar())
	}
	store := bufmodulestore.NewModuleDataStore(logger, b, filelock.NewNopLocker(), opts...)
	found, notFound, err := store.GetModuleDatasForModuleKeys(ctx, []bufmodule.ModuleKey{m.key})
	if err != nil {
		return "error:" + err.Error(), nil
	}
	if len(notFound) == 1 && len(found) == 0 {
		return "miss", nil
	}
	if len(found) != 1 {
		return "error:found/notfound inconsistent", nil
	}
	// every accessor must apply the same digest gate: either all succeed or all report the
	// digest mismatch
	fb, err := found[0].Bucket()
	_, depErr := found[0].DepModuleKeys()
	_, yErr := found[0].V1Beta1OrV1BufYAMLObjectData()
	_, lErr := found[0].V1Beta1OrV1BufLockObjectData()
	isMismatch := func(e error) bool {
		var dm *bufmodule.DigestMismatchError
		return e != nil && errors.As(e, &dm)
	}
	if isMismatch(err) != isMismatch(depErr) || isMismatch(err) != isMismatch(yErr) || isMismatch(err) != isMismatch(lErr) {
		return fmt.Sprintf("error:accessors-disagree: Bucket=%v DepModuleKeys=%v V1BufYAML=%v V1BufLock=%v", err, depErr, yErr, lErr), nil
	}
	if err != nil {
		if isMismatch(err) {
			return "mismatch", nil
		}
		return "error:" + err.Error(), nil
	}
	if depErr != nil {
		return "error:deps:" + depErr.Error(), nil
	}
	kvs, err := bk.WalkAll(ctx, fb, "")
	if err != nil {
		return "error:walk:" + err.Error(), nil
	}
	files = map[string]string{}
	for _, kv := range kvs {
		files[kv.K] = kv.V
	}
	return "hit", files
}

func implLoadLine(class string, files map[string]string) string {
	if class == "hit" {
		kvs := make([]bk.KV, 0, len(files))
		for p, c := range files {
			kvs = append(kvs, bk.KV{K: p, V: tokenOf(c)})
		}
		return "hit:" + bk.Dump(kvs)
	}
	if strings.HasPrefix(class, "error:") {
		return "ERROR"
	}
	return class
}

func sameFiles(a, b map[string]string) bool {
	if len(a) != len(b) {
		return false
	}
	for k, v := range a {
		if b[k] != v {
			return false
		}
	}
	return true
}

type caseCtx struct {
	run  *hx.Run
	idx  int
	m    mod
	part string
}

func (c caseCtx) fail(class, what string, input any) {
	c.run.Fail(hx.OracleFailure{Class: class, What: what, Input: input,
		Replay: fmt.Sprintf("build/c09 --out /tmp/c09-replay --seed %d --tier %s --only %d", c.run.Seed, c.run.Tier, c.idx)})
}

// judge: model line + oracle for one entry state of the directory layout.
func (c caseCtx) judge(entry map[string]string, how string, expectHit *bool) string {
	b := bucketOf(c.m, entry)
	class, files := loadReal(b, c.m, false)
	line := "load\t" + encObjs(c.m.files, plainTok) + "\t" + encObjs(c.m.sides, plainTok) + "\t" + entryEnc(c.m, entry)
	c.run.Case(line, implLoadLine(class, files), class != "miss")
	c.run.Count(c.part + ":load:" + strings.SplitN(class, ":", 2)[0])
	in := map[string]any{"part": c.part, "how": how, "entry_paths": keysOf(entry), "module_files": keysOf(c.m.files)}
	switch {
	case class == "hit":
		if !sameFiles(files, c.m.files) {
			c.fail("wrong-content-served", fmt.Sprintf("%s: load returned files %v but the key pins %v", how, keysOf(files), keysOf(c.m.files)), in)
		}
	case class == "miss" || class == "mismatch":
	case strings.HasPrefix(class, "error:accessors-disagree"):
		c.fail("accessor-skips-digest-check", fmt.Sprintf("%s: %s", how, class), in)
	default:
		c.fail("load-other-error", fmt.Sprintf("%s: load returned %s (neither not-cached, content, nor digest mismatch)", how, class), in)
	}
	if expectHit != nil && *expectHit != (class == "hit") {
		c.fail("hit-expectation", fmt.Sprintf("%s: expected hit=%v, got %s", how, *expectHit, class), in)
	}
	return class
}

func keysOf(m map[string]string) []string {
	out := make([]string, 0, len(m))
	for k := range m {
		out = append(out, k)
	}
	sort.Strings(out)
	return out
}

// repair: a fault-free store on top of the given state must end in a hit.
func (c caseCtx) repair(entry map[string]string, how string) {
	b := bucketOf(c.m, entry)
	store := bufmodulestore.NewModuleDataStore(logger, b, filelock.NewNopLocker())
	err := store.PutModuleDatas(ctx, []bufmodule.ModuleData{c.m.data})
	class, files := loadReal(b, c.m, false)
	c.run.Eval()
	c.run.Count(c.part + ":repair:" + class)
	// a state that already carries a valid marker is (by design) not rewritten
	if mk, ok := entry["module.yaml"]; ok && (mk == c.m.canon || (c.m.otherDep != "" && mk == c.m.otherDep)) {
		return
	}
	if err != nil || class != "hit" || !sameFiles(files, c.m.files) {
		c.fail("later-store-does-not-repair", fmt.Sprintf("%s: after a fault-free store on this state: err=%v, load=%s", how, err, class),
			map[string]any{"part": c.part, "how": how, "entry_paths": keysOf(entry)})
	}
}

// materialise the entry a crash leaves after the first k primitives of a trace.
func materialise(m mod, trace []prim, k int) map[string]string {
	entry := map[string]string{}
	pending := map[string]*strings.Builder{} // atomic objects not yet closed
	for _, p := range trace[:k] {
		rel := strings.TrimPrefix(p.path, m.dirPath+"/")
		switch p.kind {
		case 'p':
			if p.atomic {
				pending[rel] = &strings.Builder{}
			} else {
				entry[rel] = ""
			}
		case 'w':
			if p.atomic {
				pending[rel].WriteString(p.data)
			} else {
				entry[rel] += p.data
			}
		case 'c':
			if p.atomic {
				entry[rel] = pending[rel].String()
				delete(pending, rel)
			}
		}
	}
	return entry
}

func partCrash(run *hx.Run, idx int, m mod) {
	c := caseCtx{run, idx, m, "crash"}
	old := thread.Parallelism()
	thread.SetParallelism(1)
	defer thread.SetParallelism(old)
	tb := newT(storagemem.NewReadWriteBucket())
	store := bufmodulestore.NewModuleDataStore(logger, tb, filelock.NewNopLocker())
	must(store.PutModuleDatas(ctx, []bufmodule.ModuleData{m.data}))
	trace := tb.trace
	// trace shape (oracle): the marker is written atomically and is the last object closed
	last := trace[len(trace)-1]
	if !(last.kind == 'c' && last.atomic && strings.HasSuffix(last.path, "/module.yaml")) {
		c.fail("marker-not-last-atomic", fmt.Sprintf("the last primitive of a store is %v", last), map[string]any{"trace": fmt.Sprint(trace)})
	}
	for k := 0; k <= len(trace); k++ {
		entry := materialise(m, trace, k)
		exp := k == len(trace)
		class := c.judge(entry, fmt.Sprintf("crash after %d of %d primitives", k, len(trace)), &exp)
		_ = class
		if k < len(trace) {
			c.repair(entry, fmt.Sprintf("crash after %d of %d primitives", k, len(trace)))
		}
	}
	// the model's writer step machine against the real store: Put = truncate, last Write of a
	// plain object = fill, atomic marker Close = commit
	var acts []string
	for i, p := range trace {
		switch {
		case p.kind == 'p' && !p.atomic:
			acts = append(acts, "t0")
		case p.kind == 'w' && !p.atomic:
			if i+1 < len(trace) && trace[i+1].kind == 'c' {
				acts = append(acts, "f0")
			}
		case p.kind == 'c' && p.atomic:
			acts = append(acts, "c0")
		}
	}
	// payload order as the store wrote it
	order := map[string]string{}
	var filesOrder, sidesOrder []string
	for _, p := range trace {
		if p.kind == 'p' && !p.atomic {
			rel := strings.TrimPrefix(p.path, m.dirPath+"/")
			if strings.HasPrefix(rel, "files/") {
				filesOrder = append(filesOrder, strings.TrimPrefix(rel, "files/"))
			} else {
				sidesOrder = append(sidesOrder, rel)
			}
		}
	}
	_ = order
	encOrdered := func(keys []string, mm map[string]string) string {
		if len(keys) == 0 {
			return "-"
		}
		parts := make([]string, len(keys))
		for i, k := range keys {
			parts[i] = hx.Enc(k) + "=" + tokenOf(mm[k])
		}
		return strings.Join(parts, ",")
	}
	final := entryOf(tb.delegate, m)
	kvs := make([]bk.KV, 0, len(final))
	for p, cc := range final {
		t := tokenOf(cc)
		if p == "module.yaml" {
			t = markerToken(m, cc)
		}
		if t == "-" {
			t = ""
		}
		kvs = append(kvs, bk.KV{K: p, V: t})
	}
	allFiles := map[string]string{}
	for k, v := range m.files {
		allFiles[k] = v
	}
	// the store copies every file of the module data bucket (which holds module files only)
	if len(filesOrder) == len(m.files) {
		run.Case("run\t"+encOrdered(filesOrder, allFiles)+"\t"+encOrdered(sidesOrder, m.sides)+"\t1\ta0,"+strings.Join(acts, ","),
			bk.Dump(kvs)+"|lock=-|ok", true)
	}
}

func partFaults(run *hx.Run, idx int, m mod) {
	c := caseCtx{run, idx, m, "fault"}
	old := thread.Parallelism()
	thread.SetParallelism(1)
	defer thread.SetParallelism(old)
	tb0 := newT(storagemem.NewReadWriteBucket())
	must(bufmodulestore.NewModuleDataStore(logger, tb0, filelock.NewNopLocker()).PutModuleDatas(ctx, []bufmodule.ModuleData{m.data}))
	n := len(tb0.trace)
	var scheds [][]int
	for i := 0; i < n; i++ {
		scheds = append(scheds, []int{i})
	}
	if run.Thorough() {
		for i := 0; i < n; i++ {
			for j := i + 1; j < n && len(scheds) < 400; j++ {
				scheds = append(scheds, []int{i, j})
			}
		}
	}
	for _, fs := range scheds {
		tb := newT(storagemem.NewReadWriteBucket(), fs...)
		err := bufmodulestore.NewModuleDataStore(logger, tb, filelock.NewNopLocker()).PutModuleDatas(ctx, []bufmodule.ModuleData{m.data})
		how := fmt.Sprintf("store with failing primitive(s) %v (%v)", fs, tb0.trace[fs[0]])
		if tb.fired > 0 && err == nil {
			c.fail("store-fault-not-reported", how+": PutModuleDatas returned nil", map[string]any{"faults": fs})
		}
		entry := entryOf(tb.delegate, m)
		var exp *bool
		if err == nil {
			t := true
			exp = &t
		}
		class := c.judge(entry, how, exp)
		if err != nil && class == "hit" && tb.fired > 0 {
			// a failed store that nevertheless left a complete, correct entry is harmless only if
			// the content is right (checked in judge); the entry must not be *marked* complete by
			// a store that failed before writing the marker
			if _, ok := entry["module.yaml"]; ok && fs[0] < n-3 {
				c.fail("failed-store-marked-complete", how+": store failed but the entry carries a valid marker", map[string]any{"faults": fs})
			}
		}
		c.repair(entry, how)
	}
}

func partTamper(run *hx.Run, idx int, m mod, r *hx.Rand) {
	c := caseCtx{run, idx, m, "tamper"}
	clean := storagemem.NewReadWriteBucket()
	must(bufmodulestore.NewModuleDataStore(logger, clean, filelock.NewNopLocker()).PutModuleDatas(ctx, []bufmodule.ModuleData{m.data}))
	base := entryOf(clean, m)
	t := true
	c.judge(base, "complete entry", &t)
	copyOf := func() map[string]string {
		e := map[string]string{}
		for k, v := range base {
			e[k] = v
		}
		return e
	}
	for _, p := range keysOf(base) {
		if p == "module.yaml" {
			continue
		}
		e := copyOf()
		e[p] = base[p] + "x"
		c.judge(e, "flip "+p, nil)
		e = copyOf()
		e[p] = base[p][:len(base[p])/2]
		c.judge(e, "truncate "+p, nil)
		e = copyOf()
		delete(e, p)
		c.judge(e, "delete "+p, nil)
		e = copyOf()
		delete(e, p)
		e[p+".moved.proto"] = base[p]
		c.judge(e, "rename "+p, nil)
	}
	for _, add := range []string{"files/zz_new.proto", "files/notes.txt", "files/a/extra.proto", "junk.bin", "files/LICENSE.bak"} {
		e := copyOf()
		if _, exists := e[add]; exists {
			continue
		}
		e[add] = "syntax = \"proto3\"; package zz;"
		exp := !strings.HasSuffix(add, ".proto")
		c.judge(e, "add "+add, &exp)
	}
	f := false
	e := copyOf()
	delete(e, "module.yaml")
	c.judge(e, "delete marker", &f)
	e = copyOf()
	e["module.yaml"] = "garbage: [unclosed"
	c.judge(e, "garbage marker", &f)
	e = copyOf()
	e["module.yaml"] = ""
	c.judge(e, "empty marker", &f)
	e = copyOf()
	e["module.yaml"] = "version: v0\nfiles_dir: files\n"
	c.judge(e, "old-version marker", &f)
	if m.otherDep != "" {
		e = copyOf()
		e["module.yaml"] = m.otherDep
		c.judge(e, "marker with another dep digest", &f)
	}
}

func tarOf(m mod, entry map[string]string) []byte {
	b := storagemem.NewReadWriteBucket()
	for p, c := range entry {
		must(bk.PutString(ctx, b, p, c))
	}
	var buf bytes.Buffer
	must(storagearchive.Tar(ctx, b, &buf))
	return buf.Bytes()
}

func partTar(run *hx.Run, idx int, m mod) {
	c := caseCtx{run, idx, m, "tar"}
	clean := storagemem.NewReadWriteBucket()
	tb := newT(clean)
	must(bufmodulestore.NewModuleDataStore(logger, tb, filelock.NewNopLocker(), bufmodulestore.ModuleDataStoreWithTar()).PutModuleDatas(ctx, []bufmodule.ModuleData{m.data}))
	// the archive is written with one atomic put
	for _, p := range tb.trace {
		if !p.atomic {
			c.fail("tar-not-atomic", fmt.Sprintf("tar layout wrote %v non-atomically", p), nil)
		}
	}
	goodTar, err := bk.ReadAll(ctx, clean, m.tarPath)
	must(err)
	// recover the entry inside the tar
	inner := storagemem.NewReadWriteBucket()
	must(storagearchive.Untar(ctx, strings.NewReader(goodTar), inner))
	ikvs, err := bk.WalkAll(ctx, inner, "")
	must(err)
	base := map[string]string{}
	for _, kv := range ikvs {
		base[kv.K] = kv.V
	}
	try := func(how string, tarBytes *string, entry map[string]string, modelTar string) {
		b := storagemem.NewReadWriteBucket()
		if tarBytes != nil {
			must(bk.PutString(ctx, b, m.tarPath, *tarBytes))
		}
		class, files := loadReal(b, m, true)
		_, statErr := b.Stat(ctx, m.tarPath)
		kept := "kept"
		if statErr != nil {
			kept = "removed"
		}
		if tarBytes == nil {
			kept = "removed"
		}
		line := "loadtar\t" + encObjs(m.files, plainTok) + "\t" + encObjs(m.sides, plainTok) + "\t" + modelTar
		run.Case(line, implLoadLine(class, files)+"|"+kept, class != "miss")
		run.Count("tar:load:" + strings.SplitN(class, ":", 2)[0])
		if class == "hit" && !sameFiles(files, m.files) {
			c.fail("wrong-content-served", how+": tar layout served other content", map[string]any{"how": how})
		}
		if class != "hit" && class != "miss" && class != "mismatch" {
			c.fail("load-other-error", how+": "+class, map[string]any{"how": how})
		}
	}
	try("absent", nil, nil, "absent")
	g := "this is not a tar archive"
	try("garbage", &g, nil, "garbage")
	// a truncated archive is either undecodable or (cut at a block boundary) a valid shorter
	// archive; the tar codec is a library parameter, so ask it which
	for _, cut := range []int{len(goodTar) / 3, len(goodTar)/2 + 7, len(goodTar) - 1100} {
		if cut <= 0 || cut >= len(goodTar) {
			continue
		}
		tr := goodTar[:cut]
		probe := storagemem.NewReadWriteBucket()
		if err := storagearchive.Untar(ctx, strings.NewReader(tr), probe); err != nil {
			try("truncated archive (undecodable)", &tr, nil, "garbage")
		} else {
			pk, err := bk.WalkAll(ctx, probe, "")
			must(err)
			pe := map[string]string{}
			for _, kv := range pk {
				pe[kv.K] = kv.V
			}
			enc := entryEnc(m, pe)
			if len(pe) == 0 {
				enc = "-"
			}
			try("truncated archive (decodable prefix)", &tr, pe, enc)
		}
	}
	try("good archive", &goodTar, base, entryEnc(m, base))
	for _, p := range keysOf(base) {
		if p == "module.yaml" {
			continue
		}
		e := map[string]string{}
		for k, v := range base {
			e[k] = v
		}
		e[p] = base[p] + "x"
		tb := string(tarOf(m, e))
		try("archive with flipped "+p, &tb, e, entryEnc(m, e))
		delete(e, p)
		tb2 := string(tarOf(m, e))
		try("archive without "+p, &tb2, e, entryEnc(m, e))
	}
}

func partConcurrent(run *hx.Run, idx int, m mod, r *hx.Rand, tmpRoot string) {
	c := caseCtx{run, idx, m, "concurrent"}
	dir := filepath.Join(tmpRoot, "cc"+strconv.Itoa(idx))
	must(os.MkdirAll(dir, 0o755))
	defer os.RemoveAll(dir)
	bucket, err := storageos.NewProvider().NewReadWriteBucket(dir)
	must(err)
	locker, err := filelock.NewLocker(dir, filelock.LockerWithLockRetryDelay(time.Millisecond))
	must(err)
	seed := r.Uint64()
	var hmu sync.Mutex
	hr := hx.NewRand(seed)
	verifhook.SetHandler(func(string) {
		hmu.Lock()
		k := hr.Intn(4)
		hmu.Unlock()
		switch k {
		case 0:
			runtime.Gosched()
		case 1:
			time.Sleep(time.Duration(50) * time.Microsecond)
		}
	})
	defer verifhook.SetHandler(nil)
	n := 2 + r.Intn(3)
	var wg sync.WaitGroup
	results := make([]string, 0)
	var rmu sync.Mutex
	for g := 0; g < n; g++ {
		wg.Add(1)
		go func(g int) {
			defer wg.Done()
			store := bufmodulestore.NewModuleDataStore(logger, bucket, locker)
			for round := 0; round < 3; round++ {
				if (g+round)%2 == 0 {
					if err := store.PutModuleDatas(ctx, []bufmodule.ModuleData{m.data}); err != nil {
						rmu.Lock()
						results = append(results, "put-error:"+err.Error())
						rmu.Unlock()
					}
				}
				found, _, err := store.GetModuleDatasForModuleKeys(ctx, []bufmodule.ModuleKey{m.key})
				res := "miss"
				if err != nil {
					res = "error:" + err.Error()
				} else if len(found) == 1 {
					fb, err := found[0].Bucket()
					if err != nil {
						var dm *bufmodule.DigestMismatchError
						if errors.As(err, &dm) {
							res = "mismatch"
						} else {
							res = "error:" + err.Error()
						}
					} else {
						kvs, err := bk.WalkAll(ctx, fb, "")
						got := map[string]string{}
						for _, kv := range kvs {
							got[kv.K] = kv.V
						}
						if err != nil {
							res = "error:" + err.Error()
						} else if sameFiles(got, m.files) {
							res = "hit"
						} else {
							res = "WRONG-CONTENT"
						}
					}
				}
				rmu.Lock()
				results = append(results, res)
				rmu.Unlock()
			}
		}(g)
	}
	wg.Wait()
	for _, res := range results {
		run.Count("concurrent:" + strings.SplitN(res, ":", 2)[0])
		// while another process is mid-store a reader may see a valid marker only after all files
		// are complete; mismatch would mean the marker was visible before the files
		if res != "hit" && res != "miss" {
			c.fail("concurrent-"+strings.SplitN(res, ":", 2)[0], fmt.Sprintf("%d goroutines storing/loading one key: a load/store returned %s", n, res), map[string]any{"goroutines": n, "hook_seed": seed})
		}
	}
	class, files := loadReal(bucket, m, false)
	run.Eval()
	run.Distinct(fmt.Sprintf("concurrent-%d-%d", idx, seed))
	if class != "hit" || !sameFiles(files, m.files) {
		c.fail("concurrent-final-not-hit", "after all concurrent stores finished the entry does not load: "+class, map[string]any{"goroutines": n, "hook_seed": seed})
	}
}

func partProvider(run *hx.Run, idx int, m mod, omniDatas []bufmodule.ModuleData) {
	c := caseCtx{run, idx, m, "provider"}
	delegate := delegateProvider{datas: map[string]bufmodule.ModuleData{}}
	for _, d := range omniDatas {
		delegate.datas[d.ModuleKey().CommitID().String()] = d
	}
	for _, lossy := range []bool{false, true} {
		tb := newT(storagemem.NewReadWriteBucket())
		tb.drop = lossy
		store := bufmodulestore.NewModuleDataStore(logger, tb, filelock.NewNopLocker())
		prov := bufmodulecache.NewModuleDataProvider(logger, delegate, store)
		got, err := prov.GetModuleDatasForModuleKeys(ctx, []bufmodule.ModuleKey{m.key})
		res := "error"
		if err == nil && len(got) == 1 {
			if _, berr := got[0].Bucket(); berr == nil {
				res = "value:hit"
			} else {
				res = "value:mismatch"
			}
		} else if err == nil {
			res = "value:miss"
		}
		second := "hit"
		if lossy {
			second = "miss"
		}
		run.Case("provider\tmiss\t1\t"+second, res, true)
		run.Count("provider:" + res)
		if res == "value:miss" {
			c.fail("provider-returned-missing", "cache provider returned no value and no error", map[string]any{"lossy_store": lossy})
		}
	}
}

type delegateProvider struct {
	datas map[string]bufmodule.ModuleData
}

func (d delegateProvider) GetModuleDatasForModuleKeys(ctx context.Context, keys []bufmodule.ModuleKey) ([]bufmodule.ModuleData, error) {
	out := make([]bufmodule.ModuleData, len(keys))
	for i, k := range keys {
		v, ok := d.datas[k.CommitID().String()]
		if !ok {
			return nil, errors.New("unknown key")
		}
		out[i] = v
	}
	return out, nil
}

// childStore: a separate process stores module `mi` of case `i` into a disk cache and SIGKILLs
// itself at the killAt-th verif hook hit (between and inside storage operations). killAt < 0:
// no kill; the number of hook hits is printed.
func childStore(args []string) {
	seed, _ := strconv.ParseUint(args[0], 10, 64)
	i, _ := strconv.Atoi(args[1])
	mi, _ := strconv.Atoi(args[2])
	dir := args[3]
	killAt, _ := strconv.Atoi(args[4])
	tar := args[5] == "1"
	mods := genModules(hx.NewRand(seed).Fork(uint64(i)), i)
	m := mods[mi]
	var hits int64
	var hmu sync.Mutex
	verifhook.SetHandler(func(string) {
		hmu.Lock()
		n := hits
		hits++
		hmu.Unlock()
		if killAt >= 0 && n == int64(killAt) {
			syscall.Kill(os.Getpid(), syscall.SIGKILL)
			select {}
		}
	})
	bucket, err := storageos.NewProvider().NewReadWriteBucket(dir)
	must(err)
	locker, err := filelock.NewLocker(dir, filelock.LockerWithLockRetryDelay(time.Millisecond))
	must(err)
	var opts []bufmodulestore.ModuleDataStoreOption
	if tar {
		opts = append(opts, bufmodulestore.ModuleDataStoreWithTar())
	}
	store := bufmodulestore.NewModuleDataStore(logger, bucket, locker, opts...)
	if err := store.PutModuleDatas(ctx, []bufmodule.ModuleData{m.data}); err != nil {
		fmt.Println("store-error", err)
		os.Exit(9)
	}
	fmt.Println("hits", hits)
}

// partKill: real crashes. For every hook hit k of a store, a child process is killed at k;
// the parent then loads (must be a miss or the correct content), lets a second, concurrent pair
// of processes store (one of them killed), and finally repairs with a fault-free store.
func partKill(run *hx.Run, idx int, mi int, m mod, r *hx.Rand, tmpRoot string) {
	c := caseCtx{run, idx, m, "kill"}
	self, err := os.Executable()
	must(err)
	for _, tar := range []string{"0", "1"} {
		probeDir := filepath.Join(tmpRoot, fmt.Sprintf("k%d-%d-probe%s", idx, mi, tar))
		must(os.MkdirAll(probeDir, 0o755))
		out, err := exec.Command(self, "child-store", strconv.FormatUint(run.Seed, 10), strconv.Itoa(idx), strconv.Itoa(mi), probeDir, "-1", tar).Output()
		os.RemoveAll(probeDir)
		if err != nil {
			c.fail("kill-probe-failed", fmt.Sprintf("fault-free child store failed: %v %s", err, out), nil)
			return
		}
		var hits int
		fmt.Sscanf(strings.TrimSpace(string(out)), "hits %d", &hits)
		run.Count("kill:hook-hits-per-store=" + strconv.Itoa(hits))
		for k := 0; k < hits; k++ {
			if !run.Thorough() && hits > 14 && k%2 == 1 && k < hits-4 {
				continue // quick tier: every second interior point of long stores
			}
			dir := filepath.Join(tmpRoot, fmt.Sprintf("k%d-%d-%s-%d", idx, mi, tar, k))
			must(os.MkdirAll(dir, 0o755))
			cmd := exec.Command(self, "child-store", strconv.FormatUint(run.Seed, 10), strconv.Itoa(idx), strconv.Itoa(mi), dir, strconv.Itoa(k), tar)
			cmd.Run()
			killed := cmd.ProcessState != nil && !cmd.ProcessState.Exited()
			bucket, err := storageos.NewProvider().NewReadWriteBucket(dir)
			must(err)
			class, files := loadReal(bucket, m, tar == "1")
			run.Eval()
			run.Distinct(fmt.Sprintf("kill-%d-%d-%s-%d", idx, mi, tar, k))
			run.Count("kill:tar=" + tar + ":load:" + strings.SplitN(class, ":", 2)[0])
			if !killed {
				run.Count("kill:child-not-killed")
			}
			in := map[string]any{"part": "kill", "tar": tar == "1", "kill_at_hook_hit": k, "of": hits}
			rp := strings.Join([]string{self, "child-store", strconv.FormatUint(run.Seed, 10), strconv.Itoa(idx), strconv.Itoa(mi), "<dir>", strconv.Itoa(k), tar}, " ")
			switch {
			case class == "miss":
			case class == "hit" && sameFiles(files, m.files):
			case class == "hit":
				run.Fail(hx.OracleFailure{Class: "wrong-content-served", What: fmt.Sprintf("after SIGKILL at hook hit %d/%d the cache serves other content", k, hits), Input: in, Replay: rp})
			default:
				// an honest interrupted store must never leave an entry that is MARKED complete
				// with other content (that would be a digest mismatch for ever)
				run.Fail(hx.OracleFailure{Class: "interrupted-store-marked-complete", What: fmt.Sprintf("after SIGKILL at hook hit %d/%d the entry loads as %s", k, hits, class), Input: in, Replay: rp})
			}
			// repair by a later store (separate process, no kill)
			out, err := exec.Command(self, "child-store", strconv.FormatUint(run.Seed, 10), strconv.Itoa(idx), strconv.Itoa(mi), dir, "-1", tar).CombinedOutput()
			class2, files2 := loadReal(bucket, m, tar == "1")
			if err != nil || class2 != "hit" || !sameFiles(files2, m.files) {
				run.Fail(hx.OracleFailure{Class: "later-store-does-not-repair", What: fmt.Sprintf("after SIGKILL at hook hit %d/%d a later store gives err=%v (%s), load=%s", k, hits, err, strings.TrimSpace(string(out)), class2), Input: in, Replay: rp})
			}
			os.RemoveAll(dir)
		}
	}
}

func main() {
	if len(os.Args) > 1 && os.Args[1] == "child-store" {
		childStore(os.Args[2:])
		return
	}
	run := hx.Start("C09")
	r := hx.NewRand(run.Seed)
	tmpRoot, err := os.MkdirTemp("", "verif-c09-")
	must(err)
	defer os.RemoveAll(tmpRoot)
	n := run.N(25, 200)
	for i := 0; i < n; i++ {
		if run.Only >= 0 && run.Only != i {
			continue
		}
		cr := r.Fork(uint64(i))
		func() {
			defer func() {
				if p := recover(); p != nil {
					run.Fail(hx.OracleFailure{Class: "harness-panic", What: fmt.Sprint(p), Input: map[string]any{"case": i},
						Replay: fmt.Sprintf("build/c09 --out /tmp/c09-replay --seed %d --tier %s --only %d", run.Seed, run.Tier, i)})
				}
			}()
			mods := genModules(cr, i)
			datas := []bufmodule.ModuleData{mods[0].data, mods[1].data}
			for _, m := range mods {
				partCrash(run, i, m)
				partFaults(run, i, m)
				partTamper(run, i, m, cr)
				partTar(run, i, m)
				partConcurrent(run, i, m, cr, tmpRoot)
				partProvider(run, i, m, datas)
			}
			if i < run.N(3, 20) {
				for mi, m := range mods {
					partKill(run, i, mi, m, cr, tmpRoot)
				}
			}
			if i < 2 {
				run.Sample(map[string]any{"case": i, "module_files": keysOf(mods[1].files), "side_files": keysOf(mods[1].sides), "entry_dir": mods[1].dirPath})
			}
		}()
	}
	run.Finish()
}
