// Command c09 is the correspondence + oracle harness for property C09 ("the module cache
// never serves wrong content: crashes, faults, races, tampering").
//
//  1. crash points: the real store runs on a tracing bucket; for EVERY prefix of the recorded
//     primitive trace the entry state a crash would leave (os.Create semantics for plain puts,
//     all-or-nothing for the atomic marker / tar) is materialised, the real reader loads it,
//     and the Lean model judges the same state; then a further fault-free store must repair it.
//
//  2. faults: every single (thorough: every pair of) failing Put/Write/Close during the store.
//
//  3. tampering: every single-file flip / truncate / delete / add / rename of a complete entry,
//     marker deletion / garbage / other-deps.
//
//  4. tar layout: absent, garbage, truncated, tampered-inside archives.
//
//  5. concurrency: N goroutines store and load one key on a disk bucket with the real file
//     locker and seeded yields at the verif hook points.
//
//  6. the cache provider with a store that loses writes.
//
//  7. the writer step machine: every traced store — files copied by the REAL parallel
//     storage.Copy, every Write split in 16-byte pieces — is replayed action by action
//     (acquire / truncate / grow / fill / fail / commit / crash, in the traced order) through the
//     Lean `runActs`: complete stores, every crash prefix, every fault schedule, and
//     multi-writer histories (2-3 writers, one blocked on the lock while another is mid-store,
//     faults, crashes, leftover / invalid / unparsable markers).
//
//  8. the write phase as a function of the fault schedule (Lean `storeRun`, built on C15's
//     copyAll / atomicRun) against the real store; the tar writer (one atomic object) under
//     every failing step and every crash point.
//
//  9. "a store that has returned is over" (partLate): a store with an injected fault on one file
//     while sibling copy jobs are GATED (slow I/O: held before their Put / between two Writes /
//     before their Close), under parallelism 1/2/4/16, over empty / torn / invalid-marker
//     entries, followed by 0-2 further writers (clean / fault / crash).  If the failed store
//     returns while jobs of it are still held, the later writers run first and the gates are then
//     released level by level; after every level and after everything has quiesced the entry is
//     loaded and the history so far is replayed by the Lean step machine, in which a writer
//     that has returned is inert (finished_writer_is_inert).  The tracing bucket checks for EVERY
//     primitive of EVERY part: not after the writer's store returned
//     (write-after-store-returned), not outside the writer's exclusive lock
//     (write-without-exclusive-lock), not on an entry that carries a valid marker
//     (entry-modified-after-marker); a store that returns holding the lock is
//     lock-held-after-store-returned.
//
//  10. lock-file histories (lockhist.go, partLockHist, `--only 1000000+j`): the REAL filelock locker
//     with a shortened timeout on a disk cache whose lock files are absent / fresh / 59 min / 61 min /
//     2 h / 1 year old, holders (a writer stopped at a gate mid-store, a reader stopped under its
//     shared lock) that hold LONGER than the timeout, contending stores and readers, a waiter that
//     takes over, readers that verified earlier and read again later.
//
// Oracle (implementation only): a load is "not cached", content whose files equal the pinned
// content, or a digest-mismatch error — never other content; store returned nil ⇒ next load is a
// hit; a failed/interrupted store is never a hit by itself; a later store repairs.
package main

import (
	"bytes"
	"context"
	"errors"
	"fmt"
	"io"
	"log/slog"
	"os"
	"os/exec"
	"path/filepath"
	"runtime"
	"sort"
	"strconv"
	"strings"
	"sync"
	"syscall"
	"time"

	"github.com/bufbuild/buf/private/bufpkg/bufmodule"
	"github.com/bufbuild/buf/private/bufpkg/bufmodule/bufmodulecache"
	"github.com/bufbuild/buf/private/bufpkg/bufmodule/bufmodulestore"
	"github.com/bufbuild/buf/private/bufpkg/bufmodule/bufmoduletesting"
	"github.com/bufbuild/buf/private/bufpkg/bufparse"
	"github.com/bufbuild/buf/private/pkg/encoding"
	"github.com/bufbuild/buf/private/pkg/filelock"
	"github.com/bufbuild/buf/private/pkg/normalpath"
	"github.com/bufbuild/buf/private/pkg/storage"
	"github.com/bufbuild/buf/private/pkg/storage/storagearchive"
	"github.com/bufbuild/buf/private/pkg/storage/storagemem"
	"github.com/bufbuild/buf/private/pkg/storage/storageos"
	"github.com/bufbuild/buf/private/pkg/thread"
	"github.com/bufbuild/buf/private/pkg/uuidutil"
	"github.com/bufbuild/buf/private/pkg/verifhook"
	"github.com/bufbuild/verifharness/internal/bk"
	"github.com/bufbuild/verifharness/internal/hx"
	"github.com/google/uuid"
)

var ctx = context.Background()
var logger = slog.New(slog.NewTextHandler(io.Discard, nil))

func must(err error) {
	if err != nil {
		panic(err)
	}
}

// ---------------------------------------------------------------------------------------
// tracing / fault-injecting ReadWriteBucket with disk semantics, shared by several writers
//
// One `disk` is the cache directory: a memory bucket that is updated the way storageos updates
// a directory — a plain Put creates/truncates the object at once (os.Create), every Write
// appends to it, an atomic Put becomes visible only on a successful Close.  Every writer
// (process) gets its own `tbucket` view with its own fault schedule / crash point; all views
// append to one global trace and one global history of model actions, in the order in which
// the primitives really happened (the file copies of one store run in parallel).

const pieceSize = 16        // every Write of a plain object is split in pieces of this size: real torn prefixes
const atomicPieceSize = 256 // pieces of an atomic object (marker, tar archive)

type prim struct {
	w       int  // writer
	kind    byte // p w c
	path    string
	idx     int // piece index for w
	atomic  bool
	data    string // for w
	fault   bool   // an injected fault fired here
	hbefore int    // len(history) before this primitive
}

func (p prim) String() string {
	return fmt.Sprintf("%c(%s#%d atomic=%v)", p.kind, p.path, p.idx, p.atomic)
}

// fkey names a primitive independently of the interleaving (as BufModel.Faults.Fault does).
type fkey struct {
	path string
	kind byte
	idx  int
}

var errInjected = errors.New("injected fault")
var errDead = errors.New("process is dead")

type disk struct {
	mu    sync.Mutex
	mem   storage.ReadWriteBucket
	trace []prim
	hist  []string       // model actions, global order
	index map[string]int // full path of a payload object -> index into the model's payload
	mpath string         // full path of module.yaml
	// the lock file
	lmu     sync.Mutex
	lcond   *sync.Cond
	readers int
	writer  bool
	holder  *tbucket // the writer holding the exclusive lock
	blocked chan int // a writer that found the lock exclusively held reports here (if non-nil)
	// oracle for complete_is_stable: primitives that modified the entry while it carried a valid marker
	validMarker func(content string) bool
	afterValid  []string
	// oracle "once a store has returned it performs no further writes": primitives of a writer
	// recorded after its PutModuleDatas returned
	late []string
	// oracle "the entry only changes under the exclusive lock": primitives of a writer that runs
	// under the lock file, issued while it does not hold the exclusive lock
	unlocked []string
	// stores that returned still holding the exclusive lock
	leaks []string
}

func newDisk(mem storage.ReadWriteBucket) *disk {
	d := &disk{mem: mem, index: map[string]int{}}
	d.lcond = sync.NewCond(&d.lmu)
	return d
}

type tbucket struct {
	storage.ReadBucket
	d         *disk
	w         int
	faults    map[fkey]bool
	crashAt   int  // own primitive counter at which the process dies (-1: never)
	pauseAt   int  // own primitive counter at which the process pauses (-1: never)
	pauseLock bool // pause between the shared-lock check and the exclusive Lock
	paused    chan struct{}
	resume    chan struct{}
	n         int
	fired     int
	firedKeys []fkey
	dead      bool
	drop      bool // lose every write silently (for the provider check)
	acquired  bool // got the exclusive lock
	nAtLock   int  // own primitive counter when it got the lock
	released  bool // the model-visible release (fail / commitFail / commit / crash) has happened
	committed bool // marker put succeeded
	markerTry bool // a primitive on module.yaml was issued
	locking   bool // runs with the lock file (wlocker): every primitive must happen under the exclusive lock
	returned  bool // PutModuleDatas has returned
	// gates (slow I/O): a primitive named here is held until its level is released
	gates   map[fkey]int
	levels  []chan struct{}
	active  int // objects between the start of their Put and the end of their Close
	waiting int // of those: held at a gate
}

func (d *disk) writer_(w int, faults ...fkey) *tbucket {
	m := map[fkey]bool{}
	for _, f := range faults {
		m[f] = true
	}
	return &tbucket{ReadBucket: d.mem, d: d, w: w, faults: m, crashAt: -1, pauseAt: -1}
}

// newT: a single-writer bucket over a fresh disk (tar layout, provider check).
func newT(delegate storage.ReadWriteBucket, faults ...fkey) *tbucket {
	return newDisk(delegate).writer_(0, faults...)
}

// enter is called (with d.mu held) at the start of every primitive; it reports whether the
// process is (or just became) dead and whether a scheduled fault fires.
func (b *tbucket) enter(p prim) (dead bool, fault bool) {
	if b.dead {
		return true, false
	}
	pos := b.n
	b.n++
	if b.crashAt == pos {
		b.dead = true
		b.d.hist = append(b.d.hist, fmt.Sprintf("z%d", b.w))
		return true, false
	}
	p.w = b.w
	p.hbefore = len(b.d.hist)
	k := fkey{p.path, p.kind, p.idx}
	if b.faults[k] {
		b.fired++
		b.firedKeys = append(b.firedKeys, k)
		p.fault = true
	}
	if p.path == b.d.mpath {
		b.markerTry = true
	}
	if b.returned {
		b.d.late = append(b.d.late, fmt.Sprintf("writer %d: %v", b.w, p))
		noteLate(fmt.Sprintf("writer %d: %v", b.w, p))
	}
	if b.locking && !(b.acquired && !b.released) {
		b.d.unlocked = append(b.d.unlocked, fmt.Sprintf("writer %d: %v", b.w, p))
		noteUnlocked(fmt.Sprintf("writer %d: %v", b.w, p))
	}
	if b.d.validMarker != nil && !p.fault && !b.drop {
		if mk, err := bk.ReadAll(ctx, b.d.mem, b.d.mpath); err == nil && b.d.validMarker(mk) {
			b.d.afterValid = append(b.d.afterValid, fmt.Sprintf("writer %d: %v", b.w, p))
		}
	}
	b.d.trace = append(b.d.trace, p)
	return false, p.fault
}

func (b *tbucket) maybePause() {
	// widen the schedule of the parallel file copies
	runtime.Gosched()
	b.d.mu.Lock()
	hit := b.pauseAt >= 0 && b.n == b.pauseAt && !b.dead
	if hit {
		b.pauseAt = -1
	}
	b.d.mu.Unlock()
	if hit {
		close(b.paused)
		<-b.resume
	}
}

func (b *tbucket) act(format string, args ...any) {
	b.d.hist = append(b.d.hist, fmt.Sprintf(format, args...))
}

// gate holds the calling copy job before the named primitive until the primitive's level is
// released (slow I/O: held before Put / between Writes / before Close).
func (b *tbucket) gate(k fkey) {
	if b.gates == nil {
		return
	}
	lvl, ok := b.gates[k]
	if !ok {
		return
	}
	b.d.mu.Lock()
	b.waiting++
	b.d.mu.Unlock()
	<-b.levels[lvl]
	b.d.mu.Lock()
	b.waiting--
	b.d.mu.Unlock()
}

// release lets every job held at a gate of this level (and every later arrival) through.
func (b *tbucket) release(lvl int) {
	select {
	case <-b.levels[lvl]:
	default:
		close(b.levels[lvl])
	}
}

// settle waits (bounded) until no copy job of this writer is moving: every object whose Put has
// begun is either closed or held at a gate.  all: until every object is closed.
func (b *tbucket) settle(all bool, max time.Duration) bool {
	deadline := time.Now().Add(max)
	stable := 0
	for {
		b.d.mu.Lock()
		ok := b.active == b.waiting
		if all {
			ok = b.active == 0
		}
		b.d.mu.Unlock()
		if ok {
			stable++
			if stable >= 3 {
				return true
			}
		} else {
			stable = 0
		}
		if time.Now().After(deadline) {
			return false
		}
		runtime.Gosched()
		time.Sleep(100 * time.Microsecond)
	}
}

func (b *tbucket) Put(ctx context.Context, path string, opts ...storage.PutOption) (storage.WriteObjectCloser, error) {
	atomic := storage.NewPutOptions(opts).Atomic()
	b.maybePause()
	b.d.mu.Lock()
	b.active++
	b.d.mu.Unlock()
	b.gate(fkey{path, 'p', 0})
	b.d.mu.Lock()
	defer b.d.mu.Unlock()
	dead, fault := b.enter(prim{kind: 'p', path: path, atomic: atomic})
	if dead {
		b.active--
		return nil, errDead
	}
	if fault {
		b.active--
		return nil, errInjected
	}
	o := &tobj{b: b, path: path, atomic: atomic}
	if !atomic && !b.drop {
		must(bk.PutString(ctx, b.d.mem, path, ""))
		if i, ok := b.d.index[path]; ok {
			b.act("t%d.%d", b.w, i)
		}
	}
	return o, nil
}
func (b *tbucket) Delete(ctx context.Context, path string) error { return b.d.mem.Delete(ctx, path) }
func (b *tbucket) DeleteAll(ctx context.Context, prefix string) error {
	return b.d.mem.DeleteAll(ctx, prefix)
}
func (b *tbucket) SetExternalAndLocalPathsSupported() bool { return false }

type tobj struct {
	b      *tbucket
	path   string
	atomic bool
	buf    string
	n      int
	bad    bool // a Write of this object failed
}

func (o *tobj) Write(p []byte) (int, error) {
	written := 0
	size := pieceSize
	if o.atomic {
		size = atomicPieceSize
	}
	for written < len(p) {
		end := written + size
		if end > len(p) {
			end = len(p)
		}
		piece := string(p[written:end])
		o.b.maybePause()
		o.b.gate(fkey{o.path, 'w', o.n})
		o.b.d.mu.Lock()
		i := o.n
		o.n++
		dead, fault := o.b.enter(prim{kind: 'w', path: o.path, idx: i, atomic: o.atomic, data: piece})
		if dead {
			o.b.d.mu.Unlock()
			return written, errDead
		}
		if fault {
			o.bad = true
			o.b.d.mu.Unlock()
			return written, errInjected
		}
		o.buf += piece
		if !o.atomic && !o.b.drop {
			must(bk.PutString(ctx, o.b.d.mem, o.path, o.buf))
			if k, ok := o.b.d.index[o.path]; ok {
				o.b.act("g%d.%d.%d", o.b.w, k, len(o.buf))
			}
		}
		o.b.d.mu.Unlock()
		written = end
	}
	return written, nil
}
func (o *tobj) Close() error {
	o.b.maybePause()
	o.b.gate(fkey{o.path, 'c', 0})
	o.b.d.mu.Lock()
	defer o.b.d.mu.Unlock()
	o.b.active-- // the job of this object is over when this critical section ends
	dead, fault := o.b.enter(prim{kind: 'c', path: o.path, atomic: o.atomic})
	if dead {
		return errDead
	}
	if fault {
		// plain object: what was written stays; atomic object: the temp file is removed
		return errInjected
	}
	if o.b.drop {
		return nil
	}
	if o.atomic {
		if o.bad {
			// storageos: a failed write makes Close remove the temp file and report the error
			return errInjected
		}
		must(bk.PutString(ctx, o.b.d.mem, o.path, o.buf))
		if o.path == o.b.d.mpath {
			o.b.committed = true
			o.b.act("c%d", o.b.w)
		}
		return nil
	}
	if k, ok := o.b.d.index[o.path]; ok && !o.bad {
		o.b.act("f%d.%d", o.b.w, k)
	}
	return nil
}
func (o *tobj) SetExternalPath(string) error { return storage.ErrSetExternalPathUnsupported }
func (o *tobj) SetLocalPath(string) error    { return storage.ErrSetLocalPathUnsupported }

// wlocker: the lock file as seen by one writer (a readers-writer lock, like flock); it records
// when the writer found the lock taken (the model's acquire is then a no-op) and when it got it.
type wlocker struct{ b *tbucket }

type unlockFn func() error

func (f unlockFn) Unlock() error { return f() }

func (l wlocker) wait(taken func() bool) {
	d := l.b.d
	if taken() {
		// blocked. While another writer is inside its store the model's acquire is a no-op; record
		// it (atomically with respect to that writer's crash / release events).
		d.mu.Lock()
		rec := d.writer && d.holder != nil && !d.holder.dead && !d.holder.released
		if rec {
			l.b.act("a%d", l.b.w)
		}
		d.mu.Unlock()
		if d.writer && d.blocked != nil {
			d.blocked <- l.b.w
		}
	}
	for taken() {
		d.lcond.Wait()
	}
}

func (l wlocker) Lock(context.Context, string, ...filelock.LockOption) (filelock.Unlocker, error) {
	d := l.b.d
	b := l.b
	if b.pauseLock {
		// between the check under the shared lock and the exclusive Lock: others may run
		b.pauseLock = false
		close(b.paused)
		<-b.resume
	}
	d.lmu.Lock()
	defer d.lmu.Unlock()
	l.wait(func() bool { return d.writer || d.readers > 0 })
	d.writer = true
	d.holder = b
	d.mu.Lock()
	b.acquired = true
	b.nAtLock = b.n
	b.act("a%d", b.w)
	d.mu.Unlock()
	return unlockFn(func() error {
		// the store is returning.  With an error after having written something: the model's fail
		// (commitFail if the marker put was reached).  The event is recorded BEFORE the lock is
		// really released, so that the next writer's acquire comes after it.
		d.mu.Lock()
		if !b.dead && !b.committed && b.n > b.nAtLock {
			if b.markerTry {
				b.act("k%d", b.w)
			} else {
				b.act("x%d", b.w)
			}
		}
		b.released = true
		d.mu.Unlock()
		d.lmu.Lock()
		d.writer = false
		d.holder = nil
		d.lcond.Broadcast()
		d.lmu.Unlock()
		return nil
	}), nil
}

func (l wlocker) RLock(context.Context, string, ...filelock.LockOption) (filelock.Unlocker, error) {
	d := l.b.d
	d.lmu.Lock()
	defer d.lmu.Unlock()
	l.wait(func() bool { return d.writer })
	d.readers++
	return unlockFn(func() error {
		d.lmu.Lock()
		d.readers--
		d.lcond.Broadcast()
		d.lmu.Unlock()
		return nil
	}), nil
}

// world: one module's cache entry on a disk, with the payload indexing of the model line.
type world struct {
	d          *disk
	m          mod
	filesOrder []string // module file paths (relative to files/), sorted
	sidesOrder []string
}

func newWorld(m mod, init map[string]string) *world {
	return newWorldOn(storagemem.NewReadWriteBucket(), m, init)
}

// newWorldOn: the same over any bucket that behaves like a directory (lockhist.go: a real one).
func newWorldOn(mem storage.ReadWriteBucket, m mod, init map[string]string) *world {
	for p, c := range init {
		must(bk.PutString(ctx, mem, m.dirPath+"/"+p, c))
	}
	wd := &world{d: newDisk(mem), m: m, filesOrder: keysOf(m.files), sidesOrder: keysOf(m.sides)}
	// the side files in the order in which putModuleData writes them: buf.yaml, then buf.lock
	sort.SliceStable(wd.sidesOrder, func(i, j int) bool {
		return strings.HasPrefix(wd.sidesOrder[i], "v1_buf_yaml/") && !strings.HasPrefix(wd.sidesOrder[j], "v1_buf_yaml/")
	})
	for i, f := range wd.filesOrder {
		wd.d.index[m.dirPath+"/files/"+f] = i
	}
	for i, s := range wd.sidesOrder {
		wd.d.index[m.dirPath+"/"+s] = len(wd.filesOrder) + i
	}
	wd.d.mpath = m.dirPath + "/module.yaml"
	wd.d.validMarker = func(c string) bool { return c == m.canon || (m.otherDep != "" && c == m.otherDep) }
	return wd
}

// store runs the REAL putModuleData as writer tb (parallel file copies) and appends the action
// with which the store returned. Result: the model's pc of that writer.
func (wd *world) store(tb *tbucket) (pc string, err error) {
	wd.d.mu.Lock()
	tb.locking = true
	wd.d.mu.Unlock()
	err = bufmodulestore.NewModuleDataStore(logger, tb, wlocker{tb}).PutModuleDatas(ctx, []bufmodule.ModuleData{wd.m.data})
	// a store that returns still holding the exclusive lock blocks every later store and load of
	// the entry for ever (flock: until the process exits); record it and let the history go on
	wd.d.lmu.Lock()
	leaked := wd.d.writer && wd.d.holder == tb
	if leaked {
		wd.d.writer = false
		wd.d.holder = nil
		wd.d.lcond.Broadcast()
	}
	wd.d.lmu.Unlock()
	wd.d.mu.Lock()
	defer wd.d.mu.Unlock()
	if leaked && !tb.dead {
		wd.d.leaks = append(wd.d.leaks, fmt.Sprintf("writer %d: its store returned (err=%v) without releasing the exclusive lock", tb.w, err))
		if !tb.released {
			tb.released = true
			if !tb.committed && tb.n > tb.nAtLock {
				tb.act("x%d", tb.w)
			}
		}
	}
	// from here on every primitive of this writer is a write after its store has returned
	tb.returned = true
	switch {
	case tb.dead:
		return "crashed", err
	case !tb.acquired:
		// returned from the marker check under the shared lock (valid marker: nil; unparsable
		// marker: the YAML error) — the model's acquire decides the same way
		tb.act("a%d", tb.w)
	}
	if err == nil {
		return "ok", nil
	}
	return "err", err
}

func hexTok(c string) string { return hx.Enc(c) }

func encOrderedHex(keys []string, mm map[string]string) string {
	if len(keys) == 0 {
		return "-"
	}
	parts := make([]string, len(keys))
	for i, k := range keys {
		parts[i] = hx.Enc(k) + "=" + hexTok(mm[k])
	}
	return strings.Join(parts, ",")
}

// entryEncHex: entry-relative path = hex content; module.yaml = marker token.
func entryEncHex(m mod, entry map[string]string) string {
	return encObjs(entry, func(p, c string) string {
		if p == "module.yaml" {
			return markerToken(m, c)
		}
		return hexTok(c)
	})
}

func (wd *world) runLine(init map[string]string, nWriters int, hist []string) string {
	acts := "-"
	if len(hist) > 0 {
		acts = strings.Join(hist, ",")
	}
	return "run\t" + encOrderedHex(wd.filesOrder, wd.m.files) + "\t" + encOrderedHex(wd.sidesOrder, wd.m.sides) + "\t" +
		entryEncHex(wd.m, init) + "\t" + strconv.Itoa(nWriters) + "\t" + acts
}

func implRunOut(m mod, entry map[string]string, pcs []string) string {
	e := entryEncHex(m, entry)
	if e == "-" {
		e = ""
	}
	return e + "|lock=-|" + strings.Join(pcs, ",")
}

// ---------------------------------------------------------------------------------------
// a generated module

type mod struct {
	key      bufmodule.ModuleKey
	data     bufmodule.ModuleData
	files    map[string]string // module files (path relative to files/) -> content
	sides    map[string]string // entry-relative side file path -> content
	dirPath  string            // entry directory inside the cache bucket
	tarPath  string
	canon    string // canonical module.yaml bytes (from a clean store)
	otherDep string // valid module.yaml with a different dep digest ("" if no deps)
}

func entryDir(key bufmodule.ModuleKey) string {
	d, err := key.Digest()
	must(err)
	return normalpath.Join(d.Type().String(), key.FullName().Registry(), key.FullName().Owner(), key.FullName().Name(), uuidutil.ToDashless(key.CommitID()))
}

func genModules(r *hx.Rand, i int) []mod {
	// two modules, the second importing the first (so it has a dep), extra non-module files,
	// sometimes v1 side files.
	depFiles := map[string][]byte{
		"dep/d.proto": []byte("syntax = \"proto3\"; package dep; message D" + strconv.Itoa(i) + " {}"),
	}
	files := map[string][]byte{
		"a/a.proto": []byte("syntax = \"proto3\"; package a; import \"dep/d.proto\"; message A { dep.D" + strconv.Itoa(i) + " d = 1; }"),
	}
	n := r.Intn(4)
	for j := 0; j < n; j++ {
		files["a/f"+strconv.Itoa(j)+".proto"] = []byte("syntax = \"proto3\"; package a; message F" + strconv.Itoa(j) + "x" + strconv.Itoa(r.Intn(1000)) + " {}")
	}
	if r.Chance(1, 2) {
		files["LICENSE"] = []byte("license " + strconv.Itoa(r.Intn(100)))
	}
	if r.Chance(1, 2) {
		files["buf.md"] = []byte("# docs " + strconv.Itoa(r.Intn(100)))
	}
	mds := []bufmoduletesting.ModuleData{
		// fixed commit ids: the testing helper otherwise invents random ones, and the kill
		// campaign's child processes must regenerate exactly the same keys
		{Name: "buf.build/acme/dep", CommitID: uuid.NewSHA1(uuid.NameSpaceURL, []byte("dep"+strconv.Itoa(i))), PathToData: depFiles},
		{Name: "buf.build/acme/main", CommitID: uuid.NewSHA1(uuid.NameSpaceURL, []byte("main"+strconv.Itoa(i))), PathToData: files},
	}
	if r.Chance(1, 2) {
		y, err := bufmodule.NewObjectData("buf.yaml", []byte("version: v1\nname: buf.build/acme/main\n"))
		must(err)
		mds[1].BufYAMLObjectData = y
		if r.Chance(1, 2) {
			l, err := bufmodule.NewObjectData("buf.lock", []byte("version: v1\n"))
			must(err)
			mds[1].BufLockObjectData = l
		}
	}
	omni, err := bufmoduletesting.NewOmniProvider(mds...)
	must(err)
	var out []mod
	for _, name := range []string{"dep", "main"} {
		ref, err := bufparse.NewRef("buf.build", "acme", name, "")
		must(err)
		keys, err := omni.GetModuleKeysForModuleRefs(ctx, []bufparse.Ref{ref}, bufmodule.DigestTypeB5)
		must(err)
		datas, err := omni.GetModuleDatasForModuleKeys(ctx, keys)
		must(err)
		m := mod{key: keys[0], data: datas[0], files: map[string]string{}, sides: map[string]string{}}
		b, err := datas[0].Bucket()
		must(err)
		kvs, err := bk.WalkAll(ctx, b, "")
		must(err)
		for _, kv := range kvs {
			m.files[kv.K] = kv.V
		}
		if od, err := datas[0].V1Beta1OrV1BufYAMLObjectData(); err == nil && od != nil {
			m.sides["v1_buf_yaml/"+od.Name()] = string(od.Data())
		}
		if od, err := datas[0].V1Beta1OrV1BufLockObjectData(); err == nil && od != nil {
			m.sides["v1_buf_lock/"+od.Name()] = string(od.Data())
		}
		m.dirPath = entryDir(keys[0])
		m.tarPath = m.dirPath + ".tar"
		// canonical marker from a clean store
		clean := storagemem.NewReadWriteBucket()
		must(bufmodulestore.NewModuleDataStore(logger, clean, filelock.NewNopLocker()).PutModuleDatas(ctx, datas))
		c, err := bk.ReadAll(ctx, clean, m.dirPath+"/module.yaml")
		must(err)
		m.canon = c
		if idx := strings.Index(c, "digest: b5:"); idx >= 0 {
			// flip one hex digit of the first dep digest: still a valid marker, other deps
			pos := idx + len("digest: b5:")
			ch := c[pos]
			repl := byte('0')
			if ch == '0' {
				repl = '1'
			}
			m.otherDep = c[:pos] + string(repl) + c[pos+1:]
		}
		out = append(out, m)
	}
	return out
}

// ---------------------------------------------------------------------------------------
// states, loading, classification

// entryOf extracts the entry (relative path -> content) of module m from a cache bucket.
func entryOf(b storage.ReadBucket, m mod) map[string]string {
	out := map[string]string{}
	kvs, err := bk.WalkAll(ctx, b, m.dirPath)
	must(err)
	for _, kv := range kvs {
		out[strings.TrimPrefix(kv.K, m.dirPath+"/")] = kv.V
	}
	return out
}

func bucketOf(m mod, entry map[string]string) storage.ReadWriteBucket {
	b := storagemem.NewReadWriteBucket()
	for p, c := range entry {
		must(bk.PutString(ctx, b, m.dirPath+"/"+p, c))
	}
	return b
}

var tokens = map[string]string{}
var tokMu sync.Mutex

// tokenOf abstracts file contents to short tokens (stable within a run).
func tokenOf(c string) string {
	if c == "" {
		return "-"
	}
	tokMu.Lock()
	defer tokMu.Unlock()
	if t, ok := tokens[c]; ok {
		return t
	}
	t := "T" + strconv.Itoa(len(tokens))
	tokens[c] = t
	return t
}

// the shape of bufmodulestore's externalModuleData (YAML parsing is a library parameter: the
// harness asks the same decoder whether the bytes parse)
type extModuleData struct {
	Version  string `json:"version,omitempty" yaml:"version,omitempty"`
	FilesDir string `json:"files_dir,omitempty" yaml:"files_dir,omitempty"`
	Deps     []struct {
		Name   string `json:"name,omitempty" yaml:"name,omitempty"`
		Commit string `json:"commit,omitempty" yaml:"commit,omitempty"`
		Digest string `json:"digest,omitempty" yaml:"digest,omitempty"`
	} `json:"deps,omitempty" yaml:"deps,omitempty"`
	V1BufYAMLFile string `json:"v1_buf_yaml_file,omitempty" yaml:"v1_buf_yaml_file,omitempty"`
	V1BufLockFile string `json:"v1_buf_lock_file,omitempty" yaml:"v1_buf_lock_file,omitempty"`
}

func markerToken(m mod, c string) string {
	switch {
	case c == m.canon:
		return "M:canonical"
	case m.otherDep != "" && c == m.otherDep:
		return "M:otherdeps"
	default:
		var e extModuleData
		if err := encoding.UnmarshalYAMLNonStrict([]byte(c), &e); err != nil {
			return "M:unparsable"
		}
		return "Minvalid" + strconv.Itoa(len(c))
	}
}

func encObjs(m map[string]string, tok func(p, c string) string) string {
	if len(m) == 0 {
		return "-"
	}
	keys := make([]string, 0, len(m))
	for k := range m {
		keys = append(keys, k)
	}
	sort.Strings(keys)
	parts := make([]string, len(keys))
	for i, k := range keys {
		parts[i] = hx.Enc(k) + "=" + tok(k, m[k])
	}
	return strings.Join(parts, ",")
}

func plainTok(_, c string) string { return tokenOf(c) }

func entryEnc(m mod, entry map[string]string) string {
	return encObjs(entry, func(p, c string) string {
		if p == "module.yaml" {
			return markerToken(m, c)
		}
		return tokenOf(c)
	})
}

// loadReal runs the real reader on a cache bucket and classifies the outcome.
func loadReal(b storage.ReadWriteBucket, m mod, tar bool) (class string, files map[string]string) {
	var opts []bufmodulestore.ModuleDataStoreOption
	if tar {
		opts = append(opts, bufmodulestore.ModuleDataStoreWithTar())
	}
	store := bufmodulestore.NewModuleDataStore(logger, b, filelock.NewNopLocker(), opts...)
	found, notFound, err := store.GetModuleDatasForModuleKeys(ctx, []bufmodule.ModuleKey{m.key})
	if err != nil {
		return "error:" + err.Error(), nil
	}
	if len(notFound) == 1 && len(found) == 0 {
		return "miss", nil
	}
	if len(found) != 1 {
		return "error:found/notfound inconsistent", nil
	}
	return classifyData(found[0])
}

// classifyData applies every accessor of a ModuleData: they must all apply the same digest
// gate (either all succeed or all report the digest mismatch).
func classifyData(md bufmodule.ModuleData) (class string, files map[string]string) {
	fb, err := md.Bucket()
	_, depErr := md.DepModuleKeys()
	_, yErr := md.V1Beta1OrV1BufYAMLObjectData()
	_, lErr := md.V1Beta1OrV1BufLockObjectData()
	isMismatch := func(e error) bool {
		var dm *bufmodule.DigestMismatchError
		return e != nil && errors.As(e, &dm)
	}
	if isMismatch(err) != isMismatch(depErr) || isMismatch(err) != isMismatch(yErr) || isMismatch(err) != isMismatch(lErr) {
		return fmt.Sprintf("error:accessors-disagree: Bucket=%v DepModuleKeys=%v V1BufYAML=%v V1BufLock=%v", err, depErr, yErr, lErr), nil
	}
	if err != nil {
		if isMismatch(err) {
			return "mismatch", nil
		}
		return "error:" + err.Error(), nil
	}
	if depErr != nil {
		return "error:deps:" + depErr.Error(), nil
	}
	kvs, err := bk.WalkAll(ctx, fb, "")
	if err != nil {
		return "error:walk:" + err.Error(), nil
	}
	files = map[string]string{}
	for _, kv := range kvs {
		files[kv.K] = kv.V
	}
	return "hit", files
}

func implLoadLine(class string, files map[string]string) string {
	if class == "hit" {
		kvs := make([]bk.KV, 0, len(files))
		for p, c := range files {
			kvs = append(kvs, bk.KV{K: p, V: tokenOf(c)})
		}
		return "hit:" + bk.Dump(kvs)
	}
	if strings.HasPrefix(class, "error:") {
		return "ERROR"
	}
	return class
}

func sameFiles(a, b map[string]string) bool {
	if len(a) != len(b) {
		return false
	}
	for k, v := range a {
		if b[k] != v {
			return false
		}
	}
	return true
}

type caseCtx struct {
	run  *hx.Run
	idx  int
	m    mod
	part string
}

var failedClasses = map[string]bool{}

func (c caseCtx) fail(class, what string, input any) {
	failedClasses[class] = true
	c.run.Fail(hx.OracleFailure{Class: class, What: what, Input: input,
		Replay: fmt.Sprintf("build/c09 --out /tmp/c09-replay --seed %d --tier %s --only %d", c.run.Seed, c.run.Tier, c.idx)})
}

// judge: model line + oracle for one entry state of the directory layout.
func (c caseCtx) judge(entry map[string]string, how string, expectHit *bool) string {
	b := bucketOf(c.m, entry)
	class, files := loadReal(b, c.m, false)
	line := "load\t" + encObjs(c.m.files, plainTok) + "\t" + encObjs(c.m.sides, plainTok) + "\t" + entryEnc(c.m, entry)
	c.run.Case(line, implLoadLine(class, files), class != "miss")
	c.run.Count(c.part + ":load:" + strings.SplitN(class, ":", 2)[0])
	in := map[string]any{"part": c.part, "how": how, "entry_paths": keysOf(entry), "module_files": keysOf(c.m.files)}
	switch {
	case class == "hit":
		if !sameFiles(files, c.m.files) {
			c.fail("wrong-content-served", fmt.Sprintf("%s: load returned files %v but the key pins %v", how, keysOf(files), keysOf(c.m.files)), in)
		}
	case class == "miss" || class == "mismatch":
	case strings.HasPrefix(class, "error:accessors-disagree"):
		c.fail("accessor-skips-digest-check", fmt.Sprintf("%s: %s", how, class), in)
	default:
		c.fail("load-other-error", fmt.Sprintf("%s: load returned %s (neither not-cached, content, nor digest mismatch)", how, class), in)
	}
	if expectHit != nil && *expectHit != (class == "hit") {
		c.fail("hit-expectation", fmt.Sprintf("%s: expected hit=%v, got %s", how, *expectHit, class), in)
	}
	return class
}

func keysOf(m map[string]string) []string {
	out := make([]string, 0, len(m))
	for k := range m {
		out = append(out, k)
	}
	sort.Strings(out)
	return out
}

// repair: a fault-free store on top of the given state must end in a hit.
func (c caseCtx) repair(entry map[string]string, how string) {
	b := bucketOf(c.m, entry)
	store := bufmodulestore.NewModuleDataStore(logger, b, filelock.NewNopLocker())
	err := store.PutModuleDatas(ctx, []bufmodule.ModuleData{c.m.data})
	class, files := loadReal(b, c.m, false)
	c.run.Eval()
	c.run.Count(c.part + ":repair:" + class)
	// a state that already carries a valid marker is (by design) not rewritten
	if mk, ok := entry["module.yaml"]; ok && (mk == c.m.canon || (c.m.otherDep != "" && mk == c.m.otherDep)) {
		return
	}
	if mk, ok := entry["module.yaml"]; !ok || markerToken(c.m, mk) != "M:unparsable" {
		// the write phase as a function (Lean storeRun over C15's copyAll/atomicRun), fault-free
		wd := newWorld(c.m, nil)
		c.run.Case(wd.storeRunLine(entry, nil), implStoreOut(err, 0, c.m, entryOf(b, c.m)), true)
	}
	if err != nil || class != "hit" || !sameFiles(files, c.m.files) {
		c.fail("later-store-does-not-repair", fmt.Sprintf("%s: after a fault-free store on this state: err=%v, load=%s", how, err, class),
			map[string]any{"part": c.part, "how": how, "entry_paths": keysOf(entry)})
	}
}

// materialise the entry a crash leaves after the first k primitives of a trace.
func materialise(m mod, trace []prim, k int) map[string]string {
	entry := map[string]string{}
	pending := map[string]*strings.Builder{} // atomic objects not yet closed
	for _, p := range trace[:k] {
		if p.fault {
			continue
		}
		rel := strings.TrimPrefix(p.path, m.dirPath+"/")
		switch p.kind {
		case 'p':
			if p.atomic {
				pending[rel] = &strings.Builder{}
			} else {
				entry[rel] = ""
			}
		case 'w':
			if p.atomic {
				pending[rel].WriteString(p.data)
			} else {
				entry[rel] += p.data
			}
		case 'c':
			if p.atomic {
				entry[rel] = pending[rel].String()
				delete(pending, rel)
			}
		}
	}
	return entry
}

// inFlightMax: the largest number of plain objects simultaneously between Put and Close.
func inFlightMax(trace []prim) int {
	open, best := map[string]bool{}, 0
	for _, p := range trace {
		if p.atomic {
			continue
		}
		switch p.kind {
		case 'p':
			if !p.fault {
				open[p.path] = true
			}
		case 'c':
			delete(open, p.path)
		}
		if len(open) > best {
			best = len(open)
		}
	}
	return best
}

func (wd *world) storeRunLine(init map[string]string, fs []fkey) string {
	var parts []string
	mfail := -1
	for _, f := range fs {
		if f.path == wd.d.mpath {
			step := map[byte]int{'p': 0, 'w': 1, 'c': 2}[f.kind]
			if mfail < 0 || step < mfail {
				mfail = step
			}
			continue
		}
		parts = append(parts, hx.Enc(strings.TrimPrefix(f.path, wd.m.dirPath+"/"))+":"+string(f.kind)+":"+strconv.Itoa(f.idx))
	}
	faults, mf := "-", "-"
	if len(parts) > 0 {
		faults = strings.Join(parts, ",")
	}
	if mfail >= 0 {
		mf = strconv.Itoa(mfail)
	}
	return "storerun\t" + encOrderedHex(wd.filesOrder, wd.m.files) + "\t" + encOrderedHex(wd.sidesOrder, wd.m.sides) + "\t" +
		entryEncHex(wd.m, init) + "\t" + faults + "\t" + mf
}

func implStoreOut(err error, fired int, m mod, entry map[string]string) string {
	e := entryEncHex(m, entry)
	if e == "-" {
		e = ""
	}
	es := "0"
	if err != nil {
		es = "1"
	}
	return "err=" + es + "|fired=" + strconv.Itoa(fired) + "|" + e
}

func (tb *tbucket) firedOutsideMarker() int {
	n := 0
	for _, k := range tb.firedKeys {
		if k.path != tb.d.mpath {
			n++
		}
	}
	return n
}

// lockDiscipline: what the tracing bucket saw of one world so far — primitives outside the
// exclusive lock and primitives after the writer's store had returned.
func (c caseCtx) lockDiscipline(wd *world, how string) {
	wd.d.mu.Lock()
	unlocked := append([]string{}, wd.d.unlocked...)
	late := append([]string{}, wd.d.late...)
	leaks := append([]string{}, wd.d.leaks...)
	hist := strings.Join(wd.d.hist, ",")
	wd.d.mu.Unlock()
	in := map[string]any{"part": c.part, "how": how, "history": hist}
	if len(leaks) > 0 {
		c.fail("lock-held-after-store-returned", fmt.Sprintf("%s: %v (every later store and load of the entry blocks until the process exits)", how, leaks), in)
	}
	if len(late) > 0 {
		c.fail("write-after-store-returned", fmt.Sprintf("%s: primitives of a writer recorded after its store had returned: %v", how, late), in)
	}
	if len(unlocked) > 0 {
		c.fail("write-without-exclusive-lock", fmt.Sprintf("%s: primitives issued by a writer that did not hold the exclusive lock of the entry: %v", how, unlocked), in)
	}
}

func partCrash(run *hx.Run, idx int, m mod) {
	c := caseCtx{run, idx, m, "crash"}
	// the real store with its real parallel file copies
	wd := newWorld(m, nil)
	tb := wd.d.writer_(0)
	pc, err := wd.store(tb)
	must(err)
	c.lockDiscipline(wd, "fault-free store")
	trace := wd.d.trace
	hist := wd.d.hist
	run.Count("crash:max-files-in-flight=" + strconv.Itoa(inFlightMax(trace)))
	// trace shape (oracle): the marker is written atomically and is the last object closed
	last := trace[len(trace)-1]
	if !(last.kind == 'c' && last.atomic && strings.HasSuffix(last.path, "/module.yaml")) {
		c.fail("marker-not-last-atomic", fmt.Sprintf("the last primitive of a store is %v", last), map[string]any{"trace": fmt.Sprint(trace)})
	}
	for k := 0; k <= len(trace); k++ {
		entry := materialise(m, trace, k)
		exp := k == len(trace)
		how := fmt.Sprintf("crash after %d of %d primitives", k, len(trace))
		c.judge(entry, how, &exp)
		if k < len(trace) {
			c.repair(entry, how)
			// the model's writer step machine replays exactly this interleaving, then the crash
			h := append(append([]string{}, hist[:trace[k].hbefore]...), "z0")
			run.Case(wd.runLine(nil, 1, h), implRunOut(m, entry, []string{"crashed"}), true)
		}
	}
	// … and the complete store: Put = truncate, every Write = grow, Close = fill, the atomic
	// marker Close = commit, in the order in which the parallel copies really ran
	run.Case(wd.runLine(nil, 1, hist), implRunOut(m, entryOf(wd.d.mem, m), []string{pc}), true)
}

// faultKeys: the primitives of a fault-free store, named independently of the interleaving.
func faultKeys(m mod) []fkey {
	wd := newWorld(m, nil)
	_, err := wd.store(wd.d.writer_(0))
	must(err)
	var keys []fkey
	for _, p := range wd.d.trace {
		keys = append(keys, fkey{p.path, p.kind, p.idx})
	}
	return keys
}

func partFaults(run *hx.Run, idx int, m mod) {
	c := caseCtx{run, idx, m, "fault"}
	keys := faultKeys(m)
	n := len(keys)
	var scheds [][]fkey
	for i := 0; i < n; i++ {
		scheds = append(scheds, []fkey{keys[i]})
	}
	if run.Thorough() {
		for i := 0; i < n; i++ {
			for j := i + 1; j < n && len(scheds) < 400; j++ {
				scheds = append(scheds, []fkey{keys[i], keys[j]})
			}
		}
	}
	for _, fs := range scheds {
		wd := newWorld(m, nil)
		tb := wd.d.writer_(0, fs...)
		pc, err := wd.store(tb)
		how := fmt.Sprintf("store with failing primitive(s) %v", fs)
		if tb.fired > 0 && err == nil {
			c.fail("store-fault-not-reported", how+": PutModuleDatas returned nil", map[string]any{"faults": fmt.Sprint(fs)})
		}
		entry := entryOf(wd.d.mem, m)
		c.lockDiscipline(wd, how)
		var exp *bool
		if err == nil {
			t := true
			exp = &t
		}
		c.judge(entry, how, exp)
		if mk, ok := entry["module.yaml"]; ok && err != nil && tb.fired > 0 && strings.HasPrefix(markerToken(m, mk), "M:") {
			// the entry must not be MARKED complete by a store that failed
			c.fail("failed-store-marked-complete", how+": store failed but the entry carries a valid marker", map[string]any{"faults": fmt.Sprint(fs)})
		}
		c.repair(entry, how)
		// the step machine replays the traced interleaving (fail / commitFail where the store returned)
		run.Case(wd.runLine(nil, 1, wd.d.hist), implRunOut(m, entry, []string{pc}), true)
		// the write phase as a function of the fault schedule
		run.Case(wd.storeRunLine(nil, fs), implStoreOut(err, tb.firedOutsideMarker(), m, entry), true)
	}
}

// genInit: what earlier processes may have left in the entry directory.
func genInit(r *hx.Rand, m mod) (map[string]string, string) {
	payload := map[string]string{}
	for f, c := range m.files {
		payload["files/"+f] = c
	}
	for s, c := range m.sides {
		payload[s] = c
	}
	torn := func() map[string]string {
		e := map[string]string{}
		for _, p := range keysOf(payload) {
			switch r.Intn(4) {
			case 0: // missing
			case 1:
				e[p] = payload[p] // complete
			default:
				e[p] = payload[p][:r.Intn(len(payload[p])+1)] // torn prefix
			}
		}
		return e
	}
	switch r.Intn(9) {
	case 0, 1:
		return map[string]string{}, "empty"
	case 2, 3, 4:
		return torn(), "torn"
	case 5:
		e := torn()
		e["module.yaml"] = "version: v0\nfiles_dir: files\n"
		return e, "torn+invalid-marker"
	case 6:
		e := torn()
		e["module.yaml"] = ""
		return e, "torn+empty-marker"
	case 7:
		e := torn()
		e["module.yaml"] = "garbage: [unclosed"
		return e, "torn+unparsable-marker"
	default:
		e := map[string]string{}
		for p, c := range payload {
			e[p] = c
		}
		e["module.yaml"] = m.canon
		return e, "complete"
	}
}

// partMulti: histories of several writers over one entry — faults, crashes, a writer blocked on
// the lock while another is mid-store — on the real store; the global history of primitives is
// replayed by the Lean step machine and the end states are compared.
func partMulti(run *hx.Run, idx int, m mod, r *hx.Rand) {
	c := caseCtx{run, idx, m, "multi"}
	keys := faultKeys(m)
	for sc := 0; sc < run.N(4, 16); sc++ {
		init, kind := genInit(r, m)
		nW := 2 + r.Intn(2)
		wd := newWorld(m, init)
		wd.d.blocked = make(chan int, 64)
		tbs := make([]*tbucket, nW)
		plans := make([]string, nW)
		for w := range tbs {
			switch r.Intn(5) {
			case 0, 1:
				tbs[w] = wd.d.writer_(w)
				plans[w] = "clean"
			case 2:
				tbs[w] = wd.d.writer_(w, hx.Pick(r, keys))
				plans[w] = "fault"
			case 3:
				tbs[w] = wd.d.writer_(w, hx.Pick(r, keys), hx.Pick(r, keys))
				plans[w] = "2faults"
			default:
				tbs[w] = wd.d.writer_(w)
				tbs[w].crashAt = r.Intn(len(keys))
				plans[w] = "crash"
			}
		}
		pcs := make([]string, nW)
		start := func(w int) chan struct{} {
			done := make(chan struct{})
			go func() {
				defer close(done)
				defer func() {
					if p := recover(); p != nil {
						pcs[w] = fmt.Sprint("panic:", p)
					}
				}()
				pcs[w], _ = wd.store(tbs[w])
			}()
			return done
		}
		overlaps, lates := 0, 0
		for w := 0; w < nW; {
			tb := tbs[w]
			overlap := w+1 < nW && r.Chance(1, 2)
			late := overlap && r.Chance(1, 3)
			if overlap {
				if late {
					tb.pauseLock = true
				} else {
					tb.pauseAt = r.Intn(len(keys))
				}
				tb.paused = make(chan struct{})
				tb.resume = make(chan struct{})
			}
			done := start(w)
			if !overlap {
				<-done
				w++
				continue
			}
			select {
			case <-tb.paused:
				done2 := start(w + 1)
				if late {
					// writer w has checked the marker under the shared lock and not yet asked for
					// the exclusive lock: the next writer runs its whole store in between
					<-done2
					lates++
				} else {
					// writer w is inside its store: the next one runs into the lock
					select {
					case <-wd.d.blocked:
						overlaps++
					case <-done2:
					}
				}
				close(tb.resume)
				<-done
				<-done2
				w += 2
			case <-done:
				w++ // returned before reaching the pause point
			}
		}
		final := entryOf(wd.d.mem, m)
		run.Case(wd.runLine(init, nW, wd.d.hist), implRunOut(m, final, pcs), true)
		run.Count("multi:init=" + kind)
		for _, p := range plans {
			run.Count("multi:plan=" + p)
		}
		for _, pc := range pcs {
			run.Count("multi:pc=" + strings.SplitN(pc, ":", 2)[0])
		}
		if overlaps > 0 {
			run.Count("multi:writer-blocked-on-lock")
		}
		if lates > 0 {
			run.Count("multi:store-between-check-and-lock")
		}
		c.lockDiscipline(wd, fmt.Sprintf("multi-writer history over %s, plans %v", kind, plans))
		wd.d.mu.Lock()
		afterValid := append([]string{}, wd.d.afterValid...)
		histNow := strings.Join(wd.d.hist, ",")
		wd.d.mu.Unlock()
		if len(afterValid) > 0 {
			c.fail("entry-modified-after-marker", fmt.Sprintf("a writer modified the entry while it carried a valid marker (readers stream without the lock): %v", afterValid[0]),
				map[string]any{"part": "multi", "init": kind, "plans": plans, "history": histNow})
		}
		// oracle: some store returned nil ⇒ the entry loads with exactly the pinned files;
		// whatever happened, a load never serves other content
		// (on a private copy of the entry as it is now: the reader walks and reads under storagemem's
		// read lock, and a primitive of a store that has wrongly returned — write-after-store-returned —
		// arriving in between would deadlock the shared memory bucket and hang the run)
		wd.d.mu.Lock()
		now := entryOf(wd.d.mem, m)
		wd.d.mu.Unlock()
		class, files := loadReal(bucketOf(m, now), m, false)
		anyOK := false
		for _, pc := range pcs {
			anyOK = anyOK || pc == "ok"
		}
		in := map[string]any{"part": "multi", "init": kind, "plans": plans, "pcs": pcs, "history": strings.Join(wd.d.hist, ",")}
		switch {
		case class == "hit" && !sameFiles(files, m.files):
			c.fail("wrong-content-served", "multi-writer history: load returned other files", in)
		case anyOK && class != "hit":
			c.fail("store-nil-but-no-hit", "a store returned nil but the entry loads as "+class, in)
		case class != "hit" && class != "miss" && class != "mismatch":
			c.fail("load-other-error", "multi-writer history: "+class, in)
		}
	}
}

// ---------------------------------------------------------------------------------------
// primitives after the store returned / outside the lock, seen in ANY part of the run (the parts
// other than partLate do not hold copy jobs back, so there these are chance observations; they
// are reported once, at the end of the run)

var chance struct {
	mu       sync.Mutex
	late     []string
	unlocked []string
	curCase  int
}

func noteLate(s string) {
	chance.mu.Lock()
	if len(chance.late) < 20 {
		chance.late = append(chance.late, fmt.Sprintf("case %d: %s", chance.curCase, s))
	}
	chance.mu.Unlock()
}

func noteUnlocked(s string) {
	chance.mu.Lock()
	if len(chance.unlocked) < 20 {
		chance.unlocked = append(chance.unlocked, fmt.Sprintf("case %d: %s", chance.curCase, s))
	}
	chance.mu.Unlock()
}

// lateWait: how long a failed store is given to return while sibling copies are held back.  Not a
// correctness criterion: on a tree whose store waits for its copy jobs the store cannot return
// before the gates open whatever the bound is, and whenever a store DOES return the oracles are
// evaluated on the trace, not on the clock.
const lateWait = 20 * time.Millisecond

type gateSpec struct {
	File  string `json:"file"`
	Prim  string `json:"held_before"`
	Level int    `json:"released_at_level"`
}

// partLate: the family "a store that has returned is over".  Writer 0 stores with an injected
// fault on one file while sibling copy jobs are GATED (slow I/O: held before their Put, between
// two Writes or before their Close).  The harness gives the store a moment to return; a store that
// waits for all its copy jobs (thread.Parallelize joins every dispatched job) cannot, so the gates
// are then opened and the history continues as in partMulti.  If the failed store DOES return
// while its jobs are held, the next writers (the first of them usually fault-free) store, then
// the gates are released level by level and after each level — and after everything has
// quiesced — the entry is loaded and the history so far is replayed by the Lean step machine, in
// which a writer that has returned is inert.  Oracles, straight from the property:
//
//	write-after-store-returned    no primitive of writer W is recorded after W's store returned
//	write-without-exclusive-lock  no primitive of W while W does not hold the exclusive lock
//	entry-modified-after-marker   a complete entry is never modified
//	store-nil-but-no-hit / wrong-content-served   a load after a successful store hits, with the
//	                              pinned files, at every one of these moments
func partLate(run *hx.Run, idx int, m mod, r *hx.Rand) {
	c := caseCtx{run, idx, m, "late"}
	ref := newWorld(m, nil)
	files := ref.filesOrder
	if len(files) < 2 {
		// thread.Parallelize runs a single job inline: nothing can be left behind
		run.Count("late:skipped-single-file-module")
		return
	}
	keys := faultKeys(m)
	perPath := map[string][]fkey{}
	for _, k := range keys {
		perPath[k.path] = append(perPath[k.path], k)
	}
	fpath := func(i int) string { return m.dirPath + "/files/" + files[i] }
	oldPar := thread.Parallelism()
	defer thread.SetParallelism(oldPar)
	for sc := 0; sc < run.N(3, 10); sc++ {
		init, kind := genInit(r, m)
		for try := 0; try < 3 && (kind == "complete" || kind == "torn+unparsable-marker"); try++ {
			init, kind = genInit(r, m) // these make every store return at once; keep them rare
		}
		nW := 1 + r.Intn(3)
		par := hx.Pick(r, []int{1, 2, 2, 4, 4, 16})
		thread.SetParallelism(par)
		wd := newWorld(m, init)
		tbs := make([]*tbucket, nW)
		plans := make([]string, nW)
		// writer 0: one failing primitive on one file, siblings gated
		fi := r.Intn(len(files))
		if par == 1 && fi == len(files)-1 {
			fi = r.Intn(len(files) - 1)
		}
		fk := hx.Pick(r, perPath[fpath(fi)])
		tb0 := wd.d.writer_(0, fk)
		tb0.gates = map[fkey]int{}
		tb0.levels = []chan struct{}{make(chan struct{}), make(chan struct{}), make(chan struct{})}
		var specs []gateSpec
		addGate := func(j int) {
			ks := perPath[fpath(j)]
			// held before the Put (file not yet created / truncated), between Writes, before the Close: equally likely
			a := 0
			switch r.Intn(3) {
			case 1:
				if len(ks) > 2 {
					a = 1 + r.Intn(len(ks)-2)
				}
			case 2:
				a = len(ks) - 1
			}
			lvl := r.Intn(2)
			tb0.gates[ks[a]] = lvl
			specs = append(specs, gateSpec{files[j], fmt.Sprintf("%c#%d", ks[a].kind, ks[a].idx), lvl})
			if a+1 < len(ks) && r.Chance(1, 2) {
				b := a + 1 + r.Intn(len(ks)-a-1)
				tb0.gates[ks[b]] = lvl + 1
				specs = append(specs, gateSpec{files[j], fmt.Sprintf("%c#%d", ks[b].kind, ks[b].idx), lvl + 1})
			}
		}
		// Keep the failing job reachable while the gated ones sit on their semaphore slots: at most
		// par-1 gated siblings (parallelism 1: only the last job); one scenario in five is free.
		free := r.Chance(1, 5)
		maxG := par - 1
		var cand []int
		for j := range files {
			if j != fi {
				cand = append(cand, j)
			}
		}
		hx.Shuffle(r, cand)
		switch {
		case free:
			for _, j := range cand {
				if r.Chance(2, 3) || len(specs) == 0 {
					addGate(j)
				}
			}
		case par == 1:
			addGate(len(files) - 1)
		default:
			g := 1 + r.Intn(maxG)
			for _, j := range cand {
				if g == 0 {
					break
				}
				addGate(j)
				g--
			}
		}
		tbs[0] = tb0
		plans[0] = fmt.Sprintf("fault %c#%d of %s, %d gate(s)", fk.kind, fk.idx, files[fi], len(specs))
		for w := 1; w < nW; w++ {
			switch k := r.Intn(6); {
			case k < 3 || w == 1 && k < 5:
				tbs[w] = wd.d.writer_(w)
				plans[w] = "clean"
			case k < 5:
				tbs[w] = wd.d.writer_(w, hx.Pick(r, keys))
				plans[w] = "fault"
			default:
				tbs[w] = wd.d.writer_(w)
				tbs[w].crashAt = r.Intn(len(keys))
				plans[w] = "crash"
			}
		}
		pcs := make([]string, nW)
		start := func(w int) chan struct{} {
			done := make(chan struct{})
			go func() {
				defer close(done)
				defer func() {
					if p := recover(); p != nil {
						pcs[w] = fmt.Sprint("panic:", p)
					}
				}()
				pcs[w], _ = wd.store(tbs[w])
			}()
			return done
		}
		done0 := start(0)
		early := false
		select {
		case <-done0:
			early = true
		case <-time.After(lateWait):
		}
		wd.d.mu.Lock()
		heldAtReturn := tb0.active
		wd.d.mu.Unlock()
		if !early {
			// the store is waiting for its copy jobs: slow I/O completes, then the store returns
			for l := range tb0.levels {
				tb0.release(l)
			}
			<-done0
			heldAtReturn = 0
		}
		for w := 1; w < nW; w++ {
			<-start(w)
		}
		in := map[string]any{"part": "late", "scenario": sc, "init": kind, "parallelism": par, "writers": nW, "plans": plans,
			"fault": fmt.Sprintf("%c#%d of %s", fk.kind, fk.idx, files[fi]), "gates": specs}
		anyOK := false
		for _, pc := range pcs {
			anyOK = anyOK || pc == "ok"
		}
		// one observation of the entry: what a reader finds now, and the step machine on the history so far
		lastLen, snaps := -1, 0
		snap := func(how string) {
			wd.d.mu.Lock()
			hist := append([]string{}, wd.d.hist...)
			entry := entryOf(wd.d.mem, m)
			wd.d.mu.Unlock()
			if len(hist) == lastLen {
				return // nothing happened since the last observation
			}
			lastLen = len(hist)
			snaps++
			run.Case(wd.runLine(init, nW, hist), implRunOut(m, entry, pcs), true)
			class := c.judge(entry, "late: "+how, nil)
			if anyOK && class != "hit" {
				in2 := map[string]any{"moment": how, "history": strings.Join(hist, ","), "pcs": pcs}
				for k, v := range in {
					in2[k] = v
				}
				c.fail("store-nil-but-no-hit", fmt.Sprintf("%s: a store returned nil (pcs %v) but the entry now loads as %s", how, pcs, class), in2)
			}
		}
		snap("every store has returned")
		for l := range tb0.levels {
			tb0.release(l)
			tb0.settle(false, 200*time.Millisecond)
			snap(fmt.Sprintf("gates of level %d released", l))
		}
		if !tb0.settle(true, 2*time.Second) {
			run.Count("late:not-quiesced")
		}
		snap("all copy jobs have finished")
		wd.d.mu.Lock()
		late := append([]string{}, wd.d.late...)
		unlocked := append([]string{}, wd.d.unlocked...)
		afterValid := append([]string{}, wd.d.afterValid...)
		leaks := append([]string{}, wd.d.leaks...)
		in["history"] = strings.Join(wd.d.hist, ",")
		wd.d.mu.Unlock()
		in["pcs"] = pcs
		run.Count("late:init=" + kind)
		run.Count("late:parallelism=" + strconv.Itoa(par))
		run.Count("late:writers=" + strconv.Itoa(nW))
		run.Count("late:fault-kind=" + string(fk.kind))
		run.Count("late:gates=" + strconv.Itoa(len(specs)))
		for _, g := range specs {
			run.Count("late:gate-before=" + g.Prim[:1])
		}
		for _, pc := range pcs {
			run.Count("late:pc=" + strings.SplitN(pc, ":", 2)[0])
		}
		run.Count("late:observations=" + strconv.Itoa(snaps))
		if early {
			run.Count("late:store-returned-while-jobs-held=" + b01(heldAtReturn > 0))
		} else {
			run.Count("late:store-waited-for-held-jobs")
		}
		if len(late) > 0 {
			c.fail("write-after-store-returned", fmt.Sprintf("writer 0's store (%s) returned %q while %d of its copy jobs were still in progress; after the return these primitives of it were recorded: %v",
				plans[0], pcs[0], heldAtReturn, late), in)
		}
		if len(unlocked) > 0 {
			c.fail("write-without-exclusive-lock", fmt.Sprintf("primitives issued by a writer that did not hold the exclusive lock of the entry: %v", unlocked), in)
		}
		if len(leaks) > 0 {
			c.fail("lock-held-after-store-returned", fmt.Sprintf("%v", leaks), in)
		}
		if len(afterValid) > 0 {
			c.fail("entry-modified-after-marker", fmt.Sprintf("a writer modified the entry while it carried a valid marker (readers stream without the lock): %v", afterValid), in)
		}
	}
}

func b01(b bool) string {
	if b {
		return "1"
	}
	return "0"
}

func partTamper(run *hx.Run, idx int, m mod, r *hx.Rand) {
	c := caseCtx{run, idx, m, "tamper"}
	clean := storagemem.NewReadWriteBucket()
	must(bufmodulestore.NewModuleDataStore(logger, clean, filelock.NewNopLocker()).PutModuleDatas(ctx, []bufmodule.ModuleData{m.data}))
	base := entryOf(clean, m)
	t := true
	c.judge(base, "complete entry", &t)
	copyOf := func() map[string]string {
		e := map[string]string{}
		for k, v := range base {
			e[k] = v
		}
		return e
	}
	for _, p := range keysOf(base) {
		if p == "module.yaml" {
			continue
		}
		e := copyOf()
		e[p] = base[p] + "x"
		c.judge(e, "flip "+p, nil)
		e = copyOf()
		e[p] = base[p][:len(base[p])/2]
		c.judge(e, "truncate "+p, nil)
		e = copyOf()
		delete(e, p)
		c.judge(e, "delete "+p, nil)
		e = copyOf()
		delete(e, p)
		e[p+".moved.proto"] = base[p]
		c.judge(e, "rename "+p, nil)
	}
	for _, add := range []string{"files/zz_new.proto", "files/notes.txt", "files/a/extra.proto", "junk.bin", "files/LICENSE.bak"} {
		e := copyOf()
		if _, exists := e[add]; exists {
			continue
		}
		e[add] = "syntax = \"proto3\"; package zz;"
		exp := !strings.HasSuffix(add, ".proto")
		c.judge(e, "add "+add, &exp)
	}
	f := false
	e := copyOf()
	delete(e, "module.yaml")
	c.judge(e, "delete marker", &f)
	e = copyOf()
	e["module.yaml"] = "garbage: [unclosed"
	c.judge(e, "garbage marker", &f)
	e = copyOf()
	e["module.yaml"] = ""
	c.judge(e, "empty marker", &f)
	e = copyOf()
	e["module.yaml"] = "version: v0\nfiles_dir: files\n"
	c.judge(e, "old-version marker", &f)
	if m.otherDep != "" {
		e = copyOf()
		e["module.yaml"] = m.otherDep
		c.judge(e, "marker with another dep digest", &f)
	}
}

func tarOf(m mod, entry map[string]string) []byte {
	b := storagemem.NewReadWriteBucket()
	for p, c := range entry {
		must(bk.PutString(ctx, b, p, c))
	}
	var buf bytes.Buffer
	must(storagearchive.Tar(ctx, b, &buf))
	return buf.Bytes()
}

func partTar(run *hx.Run, idx int, m mod, r *hx.Rand) {
	c := caseCtx{run, idx, m, "tar"}
	clean := storagemem.NewReadWriteBucket()
	tb := newT(clean)
	must(bufmodulestore.NewModuleDataStore(logger, tb, filelock.NewNopLocker(), bufmodulestore.ModuleDataStoreWithTar()).PutModuleDatas(ctx, []bufmodule.ModuleData{m.data}))
	// the archive is written with one atomic put
	for _, p := range tb.d.trace {
		if !p.atomic {
			c.fail("tar-not-atomic", fmt.Sprintf("tar layout wrote %v non-atomically", p), nil)
		}
	}
	goodTar, err := bk.ReadAll(ctx, clean, m.tarPath)
	must(err)
	// recover the entry inside the tar
	inner := storagemem.NewReadWriteBucket()
	must(storagearchive.Untar(ctx, strings.NewReader(goodTar), inner))
	ikvs, err := bk.WalkAll(ctx, inner, "")
	must(err)
	base := map[string]string{}
	for _, kv := range ikvs {
		base[kv.K] = kv.V
	}
	// what the tar layout serialises = the model's tarEntry
	run.Case("tarentry\t"+encObjs(m.files, func(p, c string) string { return tokenOf(c) })+"\t"+encObjs(m.sides, plainTok),
		strings.ReplaceAll(entryEnc(m, base), "=-", "="), true)
	partTarWriter(run, c, m, r, tb.d.trace, goodTar, base)
	try := func(how string, tarBytes *string, entry map[string]string, modelTar string) {
		b := storagemem.NewReadWriteBucket()
		if tarBytes != nil {
			must(bk.PutString(ctx, b, m.tarPath, *tarBytes))
		}
		class, files := loadReal(b, m, true)
		_, statErr := b.Stat(ctx, m.tarPath)
		kept := "kept"
		if statErr != nil {
			kept = "removed"
		}
		if tarBytes == nil {
			kept = "removed"
		}
		line := "loadtar\t" + encObjs(m.files, plainTok) + "\t" + encObjs(m.sides, plainTok) + "\t" + modelTar
		run.Case(line, implLoadLine(class, files)+"|"+kept, class != "miss")
		run.Count("tar:load:" + strings.SplitN(class, ":", 2)[0])
		if class == "hit" && !sameFiles(files, m.files) {
			c.fail("wrong-content-served", how+": tar layout served other content", map[string]any{"how": how})
		}
		if class != "hit" && class != "miss" && class != "mismatch" {
			c.fail("load-other-error", how+": "+class, map[string]any{"how": how})
		}
	}
	try("absent", nil, nil, "absent")
	g := "this is not a tar archive"
	try("garbage", &g, nil, "garbage")
	// a truncated archive is either undecodable or (cut at a block boundary) a valid shorter
	// archive; the tar codec is a library parameter, so ask it which
	for _, cut := range []int{len(goodTar) / 3, len(goodTar)/2 + 7, len(goodTar) - 1100} {
		if cut <= 0 || cut >= len(goodTar) {
			continue
		}
		tr := goodTar[:cut]
		probe := storagemem.NewReadWriteBucket()
		if err := storagearchive.Untar(ctx, strings.NewReader(tr), probe); err != nil {
			try("truncated archive (undecodable)", &tr, nil, "garbage")
		} else {
			pk, err := bk.WalkAll(ctx, probe, "")
			must(err)
			pe := map[string]string{}
			for _, kv := range pk {
				pe[kv.K] = kv.V
			}
			enc := entryEnc(m, pe)
			if len(pe) == 0 {
				enc = "-"
			}
			try("truncated archive (decodable prefix)", &tr, pe, enc)
		}
	}
	try("good archive", &goodTar, base, entryEnc(m, base))
	for _, p := range keysOf(base) {
		if p == "module.yaml" {
			continue
		}
		e := map[string]string{}
		for k, v := range base {
			e[k] = v
		}
		e[p] = base[p] + "x"
		tb := string(tarOf(m, e))
		try("archive with flipped "+p, &tb, e, entryEnc(m, e))
		delete(e, p)
		tb2 := string(tarOf(m, e))
		try("archive without "+p, &tb2, e, entryEnc(m, e))
	}
}

// partTarWriter: the tar store is ONE atomic put.  Over an absent / garbage / older archive:
// the fault-free store, a store whose k-th step fails, and a crash after j primitives — the
// object at the tar path is the old one or the complete new archive, and the real reader's
// verdict equals the model's (atomicRun / atomicPrefix of C15 under loadTar).
func partTarWriter(run *hx.Run, c caseCtx, m mod, r *hx.Rand, ref []prim, goodTar string, base map[string]string) {
	nW := 0
	for _, p := range ref {
		if p.kind == 'w' {
			nW++
		}
	}
	older := map[string]string{}
	for k, v := range base {
		older[k] = v
	}
	for _, p := range keysOf(base) {
		if strings.HasPrefix(p, "files/") && strings.HasSuffix(p, ".proto") {
			older[p] = base[p] + "// older"
			break
		}
	}
	olderTar := string(tarOf(m, older))
	garbage := "this is not a tar archive"
	type oldT struct {
		name  string
		bytes *string
		model string
	}
	olds := []oldT{{"absent", nil, "absent"}, {"garbage", &garbage, "garbage"}, {"older", &olderTar, entryEnc(m, older)}}
	steps := map[int]bool{0: true, 1: true, nW: true, nW + 1: true}
	for i := 0; i < 4 && nW > 2; i++ {
		steps[2+r.Intn(nW-1)] = true
	}
	for _, old := range olds {
		attempt := func(mode string, k int) {
			mem := storagemem.NewReadWriteBucket()
			if old.bytes != nil {
				must(bk.PutString(ctx, mem, m.tarPath, *old.bytes))
			}
			tb := newT(mem)
			modelK := k
			switch mode {
			case "fail":
				switch {
				case k == 0:
					tb.faults[fkey{m.tarPath, 'p', 0}] = true
				case k <= nW:
					tb.faults[fkey{m.tarPath, 'w', k - 1}] = true
				default:
					tb.faults[fkey{m.tarPath, 'c', 0}] = true
				}
			case "crash":
				tb.crashAt = k
				if k >= nW+2 {
					tb.crashAt = -1 // after the Close (= file close + rename): the put is complete
					modelK = nW + 3
				}
			}
			err := bufmodulestore.NewModuleDataStore(logger, tb, filelock.NewNopLocker(), bufmodulestore.ModuleDataStoreWithTar()).PutModuleDatas(ctx, []bufmodule.ModuleData{m.data})
			now, gerr := bk.ReadAll(ctx, mem, m.tarPath)
			how := fmt.Sprintf("tar store over %s archive, %s %d of %d", old.name, mode, k, nW+2)
			in := map[string]any{"part": "tar", "how": how}
			// oracle: all-or-nothing, errors reported
			isOld := (gerr != nil && old.bytes == nil) || (gerr == nil && old.bytes != nil && now == *old.bytes)
			isNew := gerr == nil && now == goodTar
			if !isOld && !isNew {
				c.fail("tar-object-torn", how+": the object at the tar path is neither the previous one nor the complete archive", in)
			}
			if mode == "fail" && (err == nil || !isOld) {
				c.fail("tar-failed-put-visible", fmt.Sprintf("%s: err=%v, old object kept=%v", how, err, isOld), in)
			}
			if mode == "ok" && (err != nil || !isNew) {
				c.fail("tar-store-incomplete", fmt.Sprintf("%s: err=%v", how, err), in)
			}
			class, files := loadReal(mem, m, true)
			kept := "kept"
			if _, statErr := mem.Stat(ctx, m.tarPath); statErr != nil {
				kept = "removed"
			}
			es := "-"
			if mode != "crash" {
				es = "0"
				if err != nil {
					es = "1"
				}
			}
			run.Case("tarput\t"+encObjs(m.files, plainTok)+"\t"+encObjs(m.sides, plainTok)+"\t"+old.model+"\t"+strconv.Itoa(nW)+"\t"+mode+"\t"+strconv.Itoa(modelK),
				"err="+es+"|"+implLoadLine(class, files)+"|"+kept, true)
			run.Count("tar:writer:" + mode + ":" + strings.SplitN(class, ":", 2)[0])
			if class == "hit" && !sameFiles(files, m.files) {
				c.fail("wrong-content-served", how+": tar layout served other content", in)
			}
		}
		attempt("ok", 0)
		var ks []int
		for k := range steps {
			ks = append(ks, k)
		}
		sort.Ints(ks)
		for _, k := range ks {
			attempt("fail", k)
		}
		for _, j := range []int{0, 1, nW, nW + 1, nW + 2} {
			attempt("crash", j)
		}
	}
}

func partConcurrent(run *hx.Run, idx int, m mod, r *hx.Rand, tmpRoot string) {
	c := caseCtx{run, idx, m, "concurrent"}
	dir := filepath.Join(tmpRoot, "cc"+strconv.Itoa(idx))
	must(os.MkdirAll(dir, 0o755))
	defer os.RemoveAll(dir)
	bucket, err := storageos.NewProvider().NewReadWriteBucket(dir)
	must(err)
	locker, err := filelock.NewLocker(dir, filelock.LockerWithLockRetryDelay(time.Millisecond))
	must(err)
	seed := r.Uint64()
	var hmu sync.Mutex
	hr := hx.NewRand(seed)
	verifhook.SetHandler(func(string) {
		hmu.Lock()
		k := hr.Intn(4)
		hmu.Unlock()
		switch k {
		case 0:
			runtime.Gosched()
		case 1:
			time.Sleep(time.Duration(50) * time.Microsecond)
		}
	})
	defer verifhook.SetHandler(nil)
	n := 2 + r.Intn(3)
	var wg sync.WaitGroup
	results := make([]string, 0)
	var rmu sync.Mutex
	for g := 0; g < n; g++ {
		wg.Add(1)
		go func(g int) {
			defer wg.Done()
			store := bufmodulestore.NewModuleDataStore(logger, bucket, locker)
			for round := 0; round < 3; round++ {
				if (g+round)%2 == 0 {
					if err := store.PutModuleDatas(ctx, []bufmodule.ModuleData{m.data}); err != nil {
						rmu.Lock()
						results = append(results, "put-error:"+err.Error())
						rmu.Unlock()
					}
				}
				found, _, err := store.GetModuleDatasForModuleKeys(ctx, []bufmodule.ModuleKey{m.key})
				res := "miss"
				if err != nil {
					res = "error:" + err.Error()
				} else if len(found) == 1 {
					fb, err := found[0].Bucket()
					if err != nil {
						var dm *bufmodule.DigestMismatchError
						if errors.As(err, &dm) {
							res = "mismatch"
						} else {
							res = "error:" + err.Error()
						}
					} else {
						kvs, err := bk.WalkAll(ctx, fb, "")
						got := map[string]string{}
						for _, kv := range kvs {
							got[kv.K] = kv.V
						}
						if err != nil {
							res = "error:" + err.Error()
						} else if sameFiles(got, m.files) {
							res = "hit"
						} else {
							res = "WRONG-CONTENT"
						}
					}
				}
				rmu.Lock()
				results = append(results, res)
				rmu.Unlock()
			}
		}(g)
	}
	wg.Wait()
	for _, res := range results {
		run.Count("concurrent:" + strings.SplitN(res, ":", 2)[0])
		// while another process is mid-store a reader may see a valid marker only after all files
		// are complete; mismatch would mean the marker was visible before the files
		if res != "hit" && res != "miss" {
			c.fail("concurrent-"+strings.SplitN(res, ":", 2)[0], fmt.Sprintf("%d goroutines storing/loading one key: a load/store returned %s", n, res), map[string]any{"goroutines": n, "hook_seed": seed})
		}
	}
	class, files := loadReal(bucket, m, false)
	run.Eval()
	run.Distinct(fmt.Sprintf("concurrent-%d-%d", idx, seed))
	if class != "hit" || !sameFiles(files, m.files) {
		c.fail("concurrent-final-not-hit", "after all concurrent stores finished the entry does not load: "+class, map[string]any{"goroutines": n, "hook_seed": seed})
	}
}

func partProvider(run *hx.Run, idx int, m mod, omniDatas []bufmodule.ModuleData) {
	c := caseCtx{run, idx, m, "provider"}
	delegate := delegateProvider{datas: map[string]bufmodule.ModuleData{}}
	for _, d := range omniDatas {
		delegate.datas[d.ModuleKey().CommitID().String()] = d
	}
	for _, lossy := range []bool{false, true} {
		tb := newT(storagemem.NewReadWriteBucket())
		tb.drop = lossy
		store := bufmodulestore.NewModuleDataStore(logger, tb, filelock.NewNopLocker())
		prov := bufmodulecache.NewModuleDataProvider(logger, delegate, store)
		got, err := prov.GetModuleDatasForModuleKeys(ctx, []bufmodule.ModuleKey{m.key})
		res := "error"
		if err == nil && len(got) == 1 {
			if _, berr := got[0].Bucket(); berr == nil {
				res = "value:hit"
			} else {
				res = "value:mismatch"
			}
		} else if err == nil {
			res = "value:miss"
		}
		second := "hit"
		if lossy {
			second = "miss"
		}
		run.Case("provider\tmiss\t1\t"+second, res, true)
		run.Count("provider:" + res)
		if res == "value:miss" {
			c.fail("provider-returned-missing", "cache provider returned no value and no error", map[string]any{"lossy_store": lossy})
		}
	}
}

// partWarmProvider: repeated reads through ONE provider instance.  Whatever the provider
// remembers, a read after the cache entry was tampered with, and a read for a key that pins a
// DIFFERENT digest for the same commit, must pass the same gate as a cold read.
func partWarmProvider(run *hx.Run, idx int, m mod, other mod, omniDatas []bufmodule.ModuleData) {
	c := caseCtx{run, idx, m, "warm-provider"}
	delegate := delegateProvider{datas: map[string]bufmodule.ModuleData{}}
	for _, d := range omniDatas {
		delegate.datas[d.ModuleKey().CommitID().String()] = d
	}
	mem := storagemem.NewReadWriteBucket()
	store := bufmodulestore.NewModuleDataStore(logger, mem, filelock.NewNopLocker())
	prov := bufmodulecache.NewModuleDataProvider(logger, delegate, store)
	read := func(key bufmodule.ModuleKey) (string, map[string]string) {
		got, err := prov.GetModuleDatasForModuleKeys(ctx, []bufmodule.ModuleKey{key})
		if err != nil {
			return "error:" + err.Error(), nil
		}
		if len(got) != 1 {
			return "miss", nil
		}
		return classifyData(got[0])
	}
	// warm the provider: miss -> delegate -> store -> value, then a second plain read
	for pass := 0; pass < 2; pass++ {
		class, files := read(m.key)
		run.Eval()
		run.Count("warm-provider:read:" + strings.SplitN(class, ":", 2)[0])
		if class != "hit" || !sameFiles(files, m.files) {
			c.fail("warm-provider-honest-read", fmt.Sprintf("read %d of an untouched entry through the provider: %s", pass, class), map[string]any{"pass": pass})
			return
		}
	}
	base := entryOf(mem, m)
	restore := func() {
		must(mem.DeleteAll(ctx, m.dirPath))
		for p, cnt := range base {
			must(bk.PutString(ctx, mem, m.dirPath+"/"+p, cnt))
		}
	}
	for _, p := range keysOf(base) {
		if !strings.HasPrefix(p, "files/") {
			continue
		}
		for _, how := range []string{"flip", "truncate", "delete"} {
			switch how {
			case "flip":
				must(bk.PutString(ctx, mem, m.dirPath+"/"+p, base[p]+"x"))
			case "truncate":
				must(bk.PutString(ctx, mem, m.dirPath+"/"+p, base[p][:len(base[p])/2]))
			case "delete":
				must(mem.Delete(ctx, m.dirPath+"/"+p))
			}
			entry := entryOf(mem, m)
			class, files := read(m.key)
			// the warm provider must answer like the model's gate on the entry as it is NOW
			line := "load\t" + encObjs(m.files, plainTok) + "\t" + encObjs(m.sides, plainTok) + "\t" + entryEnc(m, entry)
			run.Case(line, implLoadLine(class, files), true)
			run.Count("warm-provider:tampered:" + strings.SplitN(class, ":", 2)[0])
			in := map[string]any{"part": "warm-provider", "tamper": how + " " + p}
			switch {
			case class == "hit" && !sameFiles(files, m.files):
				c.fail("warm-provider-served-tampered", fmt.Sprintf("after %s %s a repeated read through the same provider served content the key does not pin", how, p), in)
			case strings.HasPrefix(class, "error:accessors-disagree"):
				c.fail("accessor-skips-digest-check", class, in)
			}
			restore()
		}
	}
	// same module and commit, another pinned digest: never content
	otherDigest, err := other.key.Digest()
	must(err)
	myDigest, err := m.key.Digest()
	must(err)
	if otherDigest.String() != myDigest.String() {
		k2, err := bufmodule.NewModuleKey(m.key.FullName(), m.key.CommitID(), func() (bufmodule.Digest, error) { return otherDigest, nil })
		must(err)
		class, _ := read(k2)
		run.Eval()
		run.Count("warm-provider:other-digest:" + strings.SplitN(class, ":", 2)[0])
		if class == "hit" {
			c.fail("warm-provider-served-other-digest", "a key pinning a DIFFERENT digest for the same commit was served the first key's content by the warm provider", map[string]any{"part": "warm-provider"})
		}
	}
}

type delegateProvider struct {
	datas map[string]bufmodule.ModuleData
}

func (d delegateProvider) GetModuleDatasForModuleKeys(ctx context.Context, keys []bufmodule.ModuleKey) ([]bufmodule.ModuleData, error) {
	out := make([]bufmodule.ModuleData, len(keys))
	for i, k := range keys {
		v, ok := d.datas[k.CommitID().String()]
		if !ok {
			return nil, errors.New("unknown key")
		}
		out[i] = v
	}
	return out, nil
}

// childStore: a separate process stores module `mi` of case `i` into a disk cache and SIGKILLs
// itself at the killAt-th verif hook hit (between and inside storage operations). killAt < 0:
// no kill; the number of hook hits is printed.
func childStore(args []string) {
	seed, _ := strconv.ParseUint(args[0], 10, 64)
	i, _ := strconv.Atoi(args[1])
	mi, _ := strconv.Atoi(args[2])
	dir := args[3]
	killAt, _ := strconv.Atoi(args[4])
	tar := args[5] == "1"
	mods := genModules(hx.NewRand(seed).Fork(uint64(i)), i)
	m := mods[mi]
	var hits int64
	var hmu sync.Mutex
	verifhook.SetHandler(func(string) {
		hmu.Lock()
		n := hits
		hits++
		hmu.Unlock()
		if killAt >= 0 && n == int64(killAt) {
			syscall.Kill(os.Getpid(), syscall.SIGKILL)
			select {}
		}
	})
	bucket, err := storageos.NewProvider().NewReadWriteBucket(dir)
	must(err)
	locker, err := filelock.NewLocker(dir, filelock.LockerWithLockRetryDelay(time.Millisecond))
	must(err)
	var opts []bufmodulestore.ModuleDataStoreOption
	if tar {
		opts = append(opts, bufmodulestore.ModuleDataStoreWithTar())
	}
	store := bufmodulestore.NewModuleDataStore(logger, bucket, locker, opts...)
	if err := store.PutModuleDatas(ctx, []bufmodule.ModuleData{m.data}); err != nil {
		fmt.Println("store-error", err)
		os.Exit(9)
	}
	fmt.Println("hits", hits)
}

// partKill: real crashes. For every hook hit k of a store, a child process is killed at k;
// the parent then loads (must be a miss or the correct content), lets a second, concurrent pair
// of processes store (one of them killed), and finally repairs with a fault-free store.
func partKill(run *hx.Run, idx int, mi int, m mod, r *hx.Rand, tmpRoot string) {
	c := caseCtx{run, idx, m, "kill"}
	self, err := os.Executable()
	must(err)
	for _, tar := range []string{"0", "1"} {
		probeDir := filepath.Join(tmpRoot, fmt.Sprintf("k%d-%d-probe%s", idx, mi, tar))
		must(os.MkdirAll(probeDir, 0o755))
		out, err := exec.Command(self, "child-store", strconv.FormatUint(run.Seed, 10), strconv.Itoa(idx), strconv.Itoa(mi), probeDir, "-1", tar).Output()
		os.RemoveAll(probeDir)
		if err != nil {
			c.fail("kill-probe-failed", fmt.Sprintf("fault-free child store failed: %v %s", err, out), nil)
			return
		}
		var hits int
		fmt.Sscanf(strings.TrimSpace(string(out)), "hits %d", &hits)
		run.Count("kill:hook-hits-per-store=" + strconv.Itoa(hits))
		for k := 0; k < hits; k++ {
			if !run.Thorough() && hits > 14 && k%2 == 1 && k < hits-4 {
				continue // quick tier: every second interior point of long stores
			}
			dir := filepath.Join(tmpRoot, fmt.Sprintf("k%d-%d-%s-%d", idx, mi, tar, k))
			must(os.MkdirAll(dir, 0o755))
			cmd := exec.Command(self, "child-store", strconv.FormatUint(run.Seed, 10), strconv.Itoa(idx), strconv.Itoa(mi), dir, strconv.Itoa(k), tar)
			cmd.Run()
			killed := cmd.ProcessState != nil && !cmd.ProcessState.Exited()
			bucket, err := storageos.NewProvider().NewReadWriteBucket(dir)
			must(err)
			class, files := loadReal(bucket, m, tar == "1")
			run.Eval()
			run.Distinct(fmt.Sprintf("kill-%d-%d-%s-%d", idx, mi, tar, k))
			run.Count("kill:tar=" + tar + ":load:" + strings.SplitN(class, ":", 2)[0])
			if !killed {
				run.Count("kill:child-not-killed")
			}
			in := map[string]any{"part": "kill", "tar": tar == "1", "kill_at_hook_hit": k, "of": hits}
			rp := strings.Join([]string{self, "child-store", strconv.FormatUint(run.Seed, 10), strconv.Itoa(idx), strconv.Itoa(mi), "<dir>", strconv.Itoa(k), tar}, " ")
			switch {
			case class == "miss":
			case class == "hit" && sameFiles(files, m.files):
			case class == "hit":
				run.Fail(hx.OracleFailure{Class: "wrong-content-served", What: fmt.Sprintf("after SIGKILL at hook hit %d/%d the cache serves other content", k, hits), Input: in, Replay: rp})
			default:
				// an honest interrupted store must never leave an entry that is MARKED complete
				// with other content (that would be a digest mismatch for ever)
				run.Fail(hx.OracleFailure{Class: "interrupted-store-marked-complete", What: fmt.Sprintf("after SIGKILL at hook hit %d/%d the entry loads as %s", k, hits, class), Input: in, Replay: rp})
			}
			// repair by a later store (separate process, no kill)
			out, err := exec.Command(self, "child-store", strconv.FormatUint(run.Seed, 10), strconv.Itoa(idx), strconv.Itoa(mi), dir, "-1", tar).CombinedOutput()
			class2, files2 := loadReal(bucket, m, tar == "1")
			if err != nil || class2 != "hit" || !sameFiles(files2, m.files) {
				run.Fail(hx.OracleFailure{Class: "later-store-does-not-repair", What: fmt.Sprintf("after SIGKILL at hook hit %d/%d a later store gives err=%v (%s), load=%s", k, hits, err, strings.TrimSpace(string(out)), class2), Input: in, Replay: rp})
			}
			os.RemoveAll(dir)
		}
	}
}

func main() {
	if len(os.Args) > 1 && os.Args[1] == "child-store" {
		childStore(os.Args[2:])
		return
	}
	run := hx.Start("C09")
	r := hx.NewRand(run.Seed)
	tmpRoot, err := os.MkdirTemp("", "verif-c09-")
	must(err)
	defer os.RemoveAll(tmpRoot)
	n := run.N(25, 200)
	for i := 0; i < n; i++ {
		if run.Only >= 0 && run.Only != i {
			continue
		}
		cr := r.Fork(uint64(i))
		func() {
			defer func() {
				if p := recover(); p != nil {
					run.Fail(hx.OracleFailure{Class: "harness-panic", What: fmt.Sprint(p), Input: map[string]any{"case": i},
						Replay: fmt.Sprintf("build/c09 --out /tmp/c09-replay --seed %d --tier %s --only %d", run.Seed, run.Tier, i)})
				}
			}()
			mods := genModules(cr, i)
			datas := []bufmodule.ModuleData{mods[0].data, mods[1].data}
			chance.mu.Lock()
			chance.curCase = i
			chance.mu.Unlock()
			lr := cr.Fork(0x1a7e) // own stream: the other parts draw what they drew before
			for _, m := range mods {
				partLate(run, i, m, lr)
				partCrash(run, i, m)
				partFaults(run, i, m)
				partMulti(run, i, m, cr)
				partTamper(run, i, m, cr)
				partTar(run, i, m, cr)
				partConcurrent(run, i, m, cr, tmpRoot)
				partProvider(run, i, m, datas)
			}
			partWarmProvider(run, i, mods[0], mods[1], datas)
			partWarmProvider(run, i, mods[1], mods[0], datas)
			if i < run.N(3, 20) {
				for mi, m := range mods {
					partKill(run, i, mi, m, cr, tmpRoot)
				}
			}
			if i < 2 {
				run.Sample(map[string]any{"case": i, "module_files": keysOf(mods[1].files), "side_files": keysOf(mods[1].sides), "entry_dir": mods[1].dirPath})
			}
		}()
	}
	partLockHist(run, tmpRoot)
	// chance observations of the other parts (a primitive after the writer's store returned is a
	// violation wherever it is seen; partLate is the part that provokes it deterministically)
	time.Sleep(2 * time.Millisecond)
	chance.mu.Lock()
	if len(chance.late) > 0 && !failedClasses["write-after-store-returned"] {
		run.Fail(hx.OracleFailure{Class: "write-after-store-returned", What: fmt.Sprintf("primitives of a writer recorded after its store had returned (seen by chance, outside the gated part): %v", chance.late),
			Input: map[string]any{"observed": chance.late}, Replay: fmt.Sprintf("build/c09 --out /tmp/c09-replay --seed %d --tier %s", run.Seed, run.Tier)})
	}
	if len(chance.unlocked) > 0 && !failedClasses["write-without-exclusive-lock"] {
		run.Fail(hx.OracleFailure{Class: "write-without-exclusive-lock", What: fmt.Sprintf("primitives issued by a writer that did not hold the exclusive lock (seen outside the checked parts): %v", chance.unlocked),
			Input: map[string]any{"observed": chance.unlocked}, Replay: fmt.Sprintf("build/c09 --out /tmp/c09-replay --seed %d --tier %s", run.Seed, run.Tier)})
	}
	run.CountN("chance:late-primitives", len(chance.late))
	run.CountN("chance:unlocked-primitives", len(chance.unlocked))
	chance.mu.Unlock()
	run.Finish()
}
