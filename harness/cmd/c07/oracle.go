package main

import (
	"bytes"
	"context"
	"fmt"
	"sort"
	"strconv"
	"strings"

	"github.com/bufbuild/buf/private/buf/bufformat"
	"github.com/bufbuild/protocompile"
	"github.com/bufbuild/protocompile/ast"
	"github.com/bufbuild/protocompile/linker"
	"github.com/bufbuild/protocompile/parser"
	"github.com/bufbuild/protocompile/protoutil"
	"github.com/bufbuild/protocompile/reporter"
	"google.golang.org/protobuf/proto"
	"google.golang.org/protobuf/types/descriptorpb"
)

const mainPath = "t/main.proto"

var dupModifierDropped int

// parse parses exactly as bufformat.FormatBucket does.
func parse(src string) (fn *ast.FileNode, err error) {
	defer func() {
		if p := recover(); p != nil {
			fn, err = nil, fmt.Errorf("parser panic: %v", p)
		}
	}()
	return parser.Parse(mainPath, strings.NewReader(src), reporter.NewHandler(nil))
}

// format runs the real formatter; panics are turned into errors.
func format(src string) (out string, err error) {
	defer func() {
		if p := recover(); p != nil {
			err = fmt.Errorf("panic: %v", p)
		}
	}()
	fileNode, err := parse(src)
	if err != nil {
		return "", fmt.Errorf("parse: %w", err)
	}
	var buf bytes.Buffer
	if err := bufformat.FormatFileNode(&buf, fileNode); err != nil {
		return "", fmt.Errorf("format: %w", err)
	}
	return buf.String(), nil
}

// compile links src (as t/main.proto) against the support files and returns the descriptor
// with source info stripped, custom options resolved and import order normalised.
func compile(src string) (*descriptorpb.FileDescriptorProto, error) {
	srcs := map[string]string{mainPath: src}
	for k, v := range supportFiles {
		srcs[k] = v
	}
	c := protocompile.Compiler{
		Resolver: protocompile.WithStandardImports(&protocompile.SourceResolver{
			Accessor: protocompile.SourceAccessorFromMap(srcs),
		}),
		Reporter: reporter.NewReporter(nil, func(reporter.ErrorWithPos) {}),
	}
	files, err := c.Compile(context.Background(), mainPath)
	if err != nil {
		return nil, err
	}
	fd := protoutil.ProtoFromFileDescriptor(files[0])
	return normalise(fd, files)
}

func normalise(fd *descriptorpb.FileDescriptorProto, files linker.Files) (*descriptorpb.FileDescriptorProto, error) {
	fd = proto.Clone(fd).(*descriptorpb.FileDescriptorProto)
	fd.SourceCodeInfo = nil
	// re-parse with the extension resolver so custom options are compared as field values
	b, err := proto.MarshalOptions{Deterministic: true}.Marshal(fd)
	if err != nil {
		return nil, err
	}
	out := &descriptorpb.FileDescriptorProto{}
	uo := proto.UnmarshalOptions{}
	if files != nil {
		uo.Resolver = files.AsResolver()
	}
	if err := uo.Unmarshal(b, out); err != nil {
		return nil, err
	}
	normaliseDeps(out)
	return out, nil
}

// normaliseDeps sorts (and de-duplicates) the dependency list and rewrites the public/weak
// index lists accordingly: "differing at most in ... the order of import statements".
func normaliseDeps(fd *descriptorpb.FileDescriptorProto) {
	deps := fd.GetDependency()
	pub := map[string]bool{}
	weak := map[string]bool{}
	for _, i := range fd.GetPublicDependency() {
		pub[deps[i]] = true
	}
	for _, i := range fd.GetWeakDependency() {
		weak[deps[i]] = true
	}
	set := map[string]bool{}
	var sorted []string
	for _, d := range deps {
		if !set[d] {
			set[d] = true
			sorted = append(sorted, d)
		}
	}
	sort.Strings(sorted)
	fd.Dependency = sorted
	fd.PublicDependency = nil
	fd.WeakDependency = nil
	for i, d := range sorted {
		if pub[d] {
			fd.PublicDependency = append(fd.PublicDependency, int32(i))
		}
		if weak[d] {
			fd.WeakDependency = append(fd.WeakDependency, int32(i))
		}
	}
}

// dropDuplicateImports cuts every import statement whose file name was already imported out
// of the source text; a later "public"/"weak" modifier is merged into the first occurrence's
// expectation by REPLACING the first occurrence's text with the strongest form seen.
func dropDuplicateImports(src string) (string, bool) {
	fileNode, err := parse(src)
	if err != nil {
		return "", false
	}
	type occ struct {
		start, end int
		kind       string
	}
	first := map[string]*occ{}
	var cuts []occ
	var repl []occ
	dup := false
	for _, d := range fileNode.Decls {
		im, ok := d.(*ast.ImportNode)
		if !ok {
			continue
		}
		info := fileNode.NodeInfo(im)
		kind := ""
		if im.Public != nil {
			kind = "public"
		} else if im.Weak != nil {
			kind = "weak"
		}
		o := occ{info.Start().Offset, info.End().Offset, kind}
		name := im.Name.AsString()
		if f, ok := first[name]; ok {
			dup = true
			cuts = append(cuts, o)
			if f.kind == "" && kind != "" {
				f.kind = kind
				repl = append(repl, occ{f.start, f.end, kind + " " + strconv.Quote(name)})
			}
		} else {
			oc := o
			first[name] = &oc
		}
	}
	if !dup {
		return "", false
	}
	b := []byte(src)
	edits := append(cuts, repl...)
	sort.Slice(edits, func(i, j int) bool { return edits[i].start > edits[j].start })
	for _, e := range edits {
		text := ""
		if e.kind != "" && strings.Contains(e.kind, " ") {
			text = "import " + e.kind + ";"
		}
		b = append(append(append([]byte{}, b[:e.start]...), []byte(text)...), b[e.end:]...)
	}
	return string(b), true
}

// ---------------------------------------------------------------------------------------
// comment ownership: which declaration is every comment attached to

type owners map[string][]string // comment key -> declaration paths (one per occurrence)

func identText(n ast.Node) string {
	switch v := n.(type) {
	case *ast.IdentNode:
		return v.Val
	case *ast.CompoundIdentNode:
		return strings.TrimPrefix(string(v.AsIdentifier()), ".")
	case ast.IdentValueNode:
		return strings.TrimPrefix(string(v.AsIdentifier()), ".")
	}
	return "?"
}

// optName is the option name AS SPELLED (a leading dot of an extension name is kept): the
// formatter sorts file options by their printed name and the sort is stable, so the k-th
// option statement with a given spelling is the same declaration before and after formatting.
// (Two spellings of one option, "(a.b)" and "(.a.b)", may be exchanged - recorded finding
// same-option-spelled-two-ways, judged on the descriptors; the comments travel with their
// statements, which is what "attached to the same declaration" asks for.)
func optName(o *ast.OptionNode) string {
	var sb strings.Builder
	for i, p := range o.Name.Parts {
		if i > 0 {
			sb.WriteByte('.')
		}
		name := identText(p.Name)
		if ci, ok := p.Name.(*ast.CompoundIdentNode); ok && ci.LeadingDot != nil {
			name = "." + name
		}
		if p.Open != nil {
			sb.WriteString("(" + name + ")")
		} else {
			sb.WriteString(name)
		}
	}
	return sb.String()
}

type ownerWalk struct {
	file *ast.FileNode
	own  owners
}

func (w *ownerWalk) tokens(n ast.Node, path string) {
	if n == nil {
		return
	}
	_ = ast.Walk(n, &ast.SimpleVisitor{DoVisitTerminalNode: func(t ast.TerminalNode) error {
		w.terminal(t, path)
		return nil
	}})
}

func (w *ownerWalk) terminal(t ast.TerminalNode, path string) {
	info := w.file.NodeInfo(t)
	lc, tc := info.LeadingComments(), info.TrailingComments()
	for i := 0; i < lc.Len(); i++ {
		k := commentKey(lc.Index(i).RawText())
		w.own[k] = append(w.own[k], path)
	}
	for i := 0; i < tc.Len(); i++ {
		k := commentKey(tc.Index(i).RawText())
		w.own[k] = append(w.own[k], path)
	}
}

// label gives a declaration a name that survives the documented reorderings (imports and file
// options are sorted; everything else keeps its order).
func (w *ownerWalk) label(n ast.Node, counts map[string]int) string {
	idx := func(s string) string {
		counts[s]++
		return fmt.Sprintf("%s#%d", s, counts[s])
	}
	switch v := n.(type) {
	case *ast.SyntaxNode:
		return "syntax"
	case *ast.EditionNode:
		return "edition"
	case *ast.PackageNode:
		return "package"
	case *ast.ImportNode:
		kind := ""
		if v.Public != nil {
			kind = "public "
		} else if v.Weak != nil {
			kind = "weak "
		}
		_ = kind
		return "import " + v.Name.AsString()
	case *ast.OptionNode:
		return idx("option " + optName(v))
	case *ast.MessageNode:
		return "message " + v.Name.Val
	case *ast.EnumNode:
		return "enum " + v.Name.Val
	case *ast.ServiceNode:
		return "service " + v.Name.Val
	case *ast.ExtendNode:
		return idx("extend " + identText(v.Extendee))
	case *ast.FieldNode:
		return "field " + v.Name.Val
	case *ast.MapFieldNode:
		return "field " + v.Name.Val
	case *ast.GroupNode:
		return "group " + v.Name.Val
	case *ast.OneofNode:
		return "oneof " + v.Name.Val
	case *ast.EnumValueNode:
		return "value " + v.Name.Val
	case *ast.RPCNode:
		return "rpc " + v.Name.Val
	case *ast.ReservedNode:
		return idx("reserved")
	case *ast.ExtensionRangeNode:
		return idx("extensions")
	case *ast.EmptyDeclNode:
		return idx("empty")
	}
	return idx(fmt.Sprintf("%T", n))
}

func (w *ownerWalk) decl(n ast.Node, parent string, counts map[string]int) {
	path := parent + "/" + w.label(n, counts)
	var body []ast.Node
	switch v := n.(type) {
	case *ast.MessageNode:
		for _, d := range v.Decls {
			body = append(body, d)
		}
	case *ast.EnumNode:
		for _, d := range v.Decls {
			body = append(body, d)
		}
	case *ast.ServiceNode:
		for _, d := range v.Decls {
			body = append(body, d)
		}
	case *ast.ExtendNode:
		for _, d := range v.Decls {
			body = append(body, d)
		}
	case *ast.OneofNode:
		for _, d := range v.Decls {
			body = append(body, d)
		}
	case *ast.GroupNode:
		for _, d := range v.Decls {
			body = append(body, d)
		}
	case *ast.RPCNode:
		for _, d := range v.Decls {
			body = append(body, d)
		}
	default:
		w.tokens(n, path)
		return
	}
	inBody := map[ast.Node]bool{}
	for _, b := range body {
		inBody[b] = true
	}
	// own tokens of the container = all children that are not body declarations
	if cn, ok := n.(ast.CompositeNode); ok {
		for _, ch := range cn.Children() {
			if !inBody[ch] {
				w.tokens(ch, path)
			}
		}
	}
	sub := map[string]int{}
	for _, b := range body {
		w.decl(b, path, sub)
	}
}

func commentOwners(fileNode *ast.FileNode) owners {
	w := &ownerWalk{file: fileNode, own: owners{}}
	counts := map[string]int{}
	if fileNode.Syntax != nil {
		w.decl(fileNode.Syntax, "", counts)
	}
	if fileNode.Edition != nil {
		w.decl(fileNode.Edition, "", counts)
	}
	for _, d := range fileNode.Decls {
		w.decl(d, "", counts)
	}
	if fileNode.EOF != nil {
		w.terminal(fileNode.EOF, "/eof")
	}
	return w.own
}

// ---------------------------------------------------------------------------------------
// the property oracle

type verdict struct {
	class   string // "" = property holds on this input
	what    string
	out     string // formatted text (if any)
	out2    string // format(out)
	comment string // the offending comment (key) for comment-* classes
	// comments: ALL offending comments of a comment-* class (every missing comment, every
	// invented comment, every moved comment).  Each is classified on its own (classifyAll), so a
	// comment lost at a recorded site never hides a comment lost somewhere else.
	comments []string
}

func sortedCopy(xs []string) []string {
	c := append([]string{}, xs...)
	sort.Strings(c)
	return c
}

// judge checks the property's own statement on one source text.  compiles tells whether the
// source links; when it does not (duplicate imports) the parser-level descriptor is compared.
func judge(src string) (v verdict, compiles bool, genErr error) {
	out, err := format(src)
	if err != nil {
		if strings.HasPrefix(err.Error(), "parse:") {
			return verdict{}, false, err // generator produced something that does not parse
		}
		if strings.HasPrefix(err.Error(), "panic:") {
			return verdict{class: "formatter-panic", what: err.Error()}, false, nil
		}
		return verdict{class: "formatter-error", what: err.Error()}, false, nil
	}
	v.out = out
	// 1. the output parses
	outNode, err := parse(out)
	if err != nil {
		v.class, v.what = "output-does-not-parse", err.Error()
		return v, false, nil
	}
	// 2. same descriptors
	inFD, cerr := compile(src)
	if cerr == nil {
		compiles = true
		outFD, err := compile(out)
		if err != nil {
			v.class, v.what = "output-does-not-compile", err.Error()
			return v, compiles, nil
		}
		if !proto.Equal(inFD, outFD) {
			v.class, v.what = classifyDescDiff(inFD, outFD), "descriptors differ after formatting"
			return v, compiles, nil
		}
	} else if ded, ok := dropDuplicateImports(src); ok {
		// duplicate imports never link ("already imported"): the reference is the input with
		// the later duplicates cut out; import kinds are compared on the parser-level descriptor
		refFD, err := compile(ded)
		if err != nil {
			return verdict{}, false, fmt.Errorf("input does not link even without duplicate imports: %w", err)
		}
		outRef := out
		if d2, ok := dropDuplicateImports(out); ok {
			outRef = d2 // duplicates that carry comments are kept by design
		}
		outFD, err := compile(outRef)
		if err != nil {
			v.class, v.what = "output-does-not-compile", err.Error()
			return v, compiles, nil
		}
		if !proto.Equal(refFD, outFD) {
			c := classifyDescDiff(refFD, outFD)
			if c != "imports-changed" {
				v.class, v.what = c, "descriptors differ after formatting (input has duplicate imports; reference = input minus later duplicates)"
				return v, compiles, nil
			}
			// Duplicate imports with different public/weak modifiers: the input does not
			// compile, and the golden test duplicate_import.proto documents that the
			// formatter keeps one statement per file (plain > public > weak).  Not judged.
			dupModifierDropped++
		}
	} else {
		return verdict{}, false, fmt.Errorf("input does not link: %w", cerr)
	}
	// 3. every comment is still present ...
	inKeys, outKeys := sortedCopy(commentKeys(src)), sortedCopy(commentKeys(out))
	// (compared as multisets; joining the keys with a separator would make [""] -- one EMPTY
	// comment `//` or `/**/` -- look like no comment at all)
	if missing, extra := diffMultiset(inKeys, outKeys), diffMultiset(outKeys, inKeys); len(missing)+len(extra) > 0 {
		if len(missing) > 0 {
			v.comment = missing[0]
			v.comments = missing
			v.class, v.what = "comment-dropped", fmt.Sprintf("comments missing from output: %q (extra: %q)", missing, extra)
		} else {
			v.comment = extra[0]
			v.comments = extra
			v.class, v.what = "comment-invented", fmt.Sprintf("comments only in output: %q", extra)
		}
		return v, compiles, nil
	}
	// ... attached to the same declaration
	inNode, _ := parse(src)
	if inNode != nil {
		io, oo := commentOwners(inNode), commentOwners(outNode)
		var ks []string
		for k := range io {
			ks = append(ks, k)
		}
		sort.Strings(ks)
		for _, k := range ks {
			if len(io[k]) != 1 || len(oo[k]) != 1 {
				continue // non-unique comment text: ownership is ambiguous, multiset check above applies
			}
			if io[k][0] != oo[k][0] {
				v.comments = append(v.comments, k)
				if v.class == "" {
					v.comment = k
					v.class, v.what = "comment-moved", fmt.Sprintf("comment %q attached to %q before and %q after formatting", k, io[k][0], oo[k][0])
				}
			}
		}
		if v.class != "" {
			return v, compiles, nil
		}
	}
	// 4. idempotence
	out2, err := format(out)
	if err != nil {
		v.class, v.what = "reformat-fails", err.Error()
		return v, compiles, nil
	}
	v.out2 = out2
	if out2 != out {
		v.class, v.what = "not-idempotent", "format(format(x)) != format(x): "+firstDiff(out, out2)
		return v, compiles, nil
	}
	return v, compiles, nil
}

func diffMultiset(a, b []string) []string {
	cnt := map[string]int{}
	for _, x := range b {
		cnt[x]++
	}
	var out []string
	for _, x := range a {
		if cnt[x] > 0 {
			cnt[x]--
		} else {
			out = append(out, x)
		}
	}
	return out
}

func firstDiff(a, b string) string {
	la, lb := strings.Split(a, "\n"), strings.Split(b, "\n")
	for i := 0; i < len(la) && i < len(lb); i++ {
		if la[i] != lb[i] {
			return fmt.Sprintf("line %d: %q vs %q", i+1, la[i], lb[i])
		}
	}
	return fmt.Sprintf("line counts %d vs %d", len(la), len(lb))
}

// classifyDescDiff names which part of the descriptor changed, so that distinct defects get
// distinct oracle classes.
func classifyDescDiff(a, b *descriptorpb.FileDescriptorProto) string {
	ac, bc := proto.Clone(a).(*descriptorpb.FileDescriptorProto), proto.Clone(b).(*descriptorpb.FileDescriptorProto)
	ao, bo := ac.Options, bc.Options
	ac.Options, bc.Options = nil, nil
	if proto.Equal(ac, bc) && !proto.Equal(ao, bo) {
		return "file-options-changed"
	}
	ac.Dependency, bc.Dependency = nil, nil
	ac.PublicDependency, bc.PublicDependency = nil, nil
	ac.WeakDependency, bc.WeakDependency = nil, nil
	if proto.Equal(ac, bc) && proto.Equal(ao, bo) {
		return "imports-changed"
	}
	return "descriptor-changed"
}
