package main

import (
	"bytes"
	"context"
	"fmt"
	"os"
	"os/exec"
	"path/filepath"
	"sort"
	"strings"

	"github.com/bufbuild/buf/private/buf/bufformat"
	bufcmd "github.com/bufbuild/buf/private/buf/cmd/buf"
	"github.com/bufbuild/buf/private/pkg/app"
	"github.com/bufbuild/buf/private/pkg/app/appcmd"
	"github.com/bufbuild/buf/private/pkg/storage"
	"github.com/bufbuild/buf/private/pkg/storage/storagemem"
	"github.com/bufbuild/verifharness/internal/hx"
)

// Family "degenerate": files with (almost) nothing in them -- empty, white space only, COMMENTS
// ONLY (line / block / mixed, with and without a final newline, behind a byte order mark, one
// giant block comment, everything commented out), only a syntax line, only a package, only
// imports, only options, only empty statements, comments in front of the syntax line and behind
// the last declaration, no newline at the end of the file.
//
// Every text goes through the three ways a file gets formatted:
//
//	(A) bufformat.FormatFileNode                    -> judge() + the Lean checker (fmt line)
//	(B) bufformat.FormatBucket (all texts at once)  -> same bytes as (A); comment multiset
//	(C) the CLI (the real root command, in process): `buf format <dir> -w` (twice), `-d`,
//	    `-d --exit-code`, `--exit-code`, `-o <dir>`, `buf format <file>`  -> same bytes as (A),
//	    comment multiset of what is ON DISK after -w (a comment-only file must not be truncated),
//	    the -d text applied with patch(1) gives (A), exit code 100 iff something changes; the
//	    file written by -w is sent to the Lean checker as a fmt line of its own.
//	    A text that does not parse (only `;`): buf format fails and -w leaves the file alone.
//
// The comment clause is the oracle everywhere: every comment of the input is in the output
// exactly once (comments behind the last token belong to the EOF token and must stay).

type degText struct {
	name, text string
}

const bom = "\xef\xbb\xbf"

func degTexts(r *hx.Rand, thorough bool) []degText {
	var out []degText
	add := func(name, text string) { out = append(out, degText{name, text}) }
	// nothing at all
	add("empty", "")
	add("newline", "\n")
	add("spaces", "   ")
	add("blank-lines", "\n\n\n")
	add("mixed-ws", " \t\n\r\n\f\v \n")
	add("crlf", "\r\n")
	add("bom", bom)
	add("bom-newline", bom+"\n")
	// comments only
	commentBodies := []degText{
		{"line", "// d1 licence header"},
		{"line-empty", "//"},
		{"line-slashes", "//// d1 ////"},
		{"block", "/* d1 block */"},
		{"block-empty", "/**/"},
		{"block-doc", "/** d1 doc */"},
		{"block-multiline", "/*\n * d1 Copyright\n * d2 second line\n */"},
		{"block-ragged", "/* d1\n      deep\n\ttab\n*/"},
		{"two-lines", "// d1\n// d2"},
		{"two-paragraphs", "// d1\n\n// d2"},
		{"far-apart", "// d1\n\n\n\n\n// d2"},
		{"two-blocks-one-line", "/* d1 */ /* d2 */"},
		{"block-then-line", "/* d1 */ // d2"},
		{"line-then-block", "// d1\n/* d2 */"},
		{"mixed", "/* d1 */\n// d2\n\n\n/* d3\n d4 */\n\n// d5"},
		{"commented-out", "// syntax = \"proto3\";\n// package d1;\n//\n// message D2 {\n//   string d3 = 1; /* d4 */\n// }"},
		{"commented-out-block", "/*\nsyntax = \"proto3\";\nmessage D1 {}\n*/"},
		{"block-with-line-marker", "/* d1 // not a line comment */"},
		{"line-with-block-markers", "// d1 /* not a block */ d2"},
	}
	prefixes := []degText{{"", ""}, {"bom", bom}, {"blank-before", "\n\n"}, {"indented", "  \t"}}
	suffixes := []degText{{"no-final-newline", ""}, {"newline", "\n"}, {"blank-after", "\n\n\n"}, {"crlf", "\r\n"}, {"space", " "}}
	for _, b := range commentBodies {
		for pi, p := range prefixes {
			for si, s := range suffixes {
				if !thorough && (pi+si+len(b.text)+int(r.Uint64()%3))%3 != 0 && !(pi == 0 && si <= 1) {
					continue // quick: plain +/- final newline always, the other variants rotate
				}
				add("comments-only:"+b.name+":"+p.name+":"+s.name, p.text+b.text+s.text)
			}
		}
	}
	var giant strings.Builder
	giant.WriteString("/*\n")
	for i := 0; i < 900; i++ { // > 32 KiB: longer than any scratch buffer a sink may use
		fmt.Fprintf(&giant, " * g%d line of a giant block comment ; { } message X { }\n", i)
	}
	giant.WriteString(" */\n")
	add("comments-only:giant-block", giant.String())
	var many strings.Builder
	for i := 0; i < 300; i++ {
		fmt.Fprintf(&many, "// m%d\n", i)
		if i%7 == 0 {
			many.WriteString("\n")
		}
	}
	add("comments-only:many-lines", many.String())
	// one kind of statement only
	stmtBodies := []degText{
		{"syntax", `syntax = "proto3";`},
		{"syntax2", `syntax = "proto2";`},
		{"edition", `edition = "2023";`},
		{"package", `package d.v1;`},
		{"import", `import "c07/dep_b.proto";`},
		{"imports-unsorted", "import \"c07/dep_b.proto\";\nimport \"c07/dep_a.proto\";"},
		{"imports-duplicate", "import \"c07/dep_b.proto\";\nimport \"c07/dep_b.proto\";"},
		{"option", `option java_package = "d";`},
		{"options-unsorted", "option java_package = \"d\";\noption cc_enable_arenas = true;"},
		{"syntax-empties(does-not-parse)", "syntax = \"proto3\";;\n;"}, // protocompile: a syntax line followed by nothing but ';' is a syntax error
		{"syntax-empties-message", "syntax = \"proto3\";;\n;\nmessage D {}"},
		{"message-empties", "message D {};;\n;"},
		{"package-empties", "package d;;;"},
		{"message", `message D {}`},
		{"enum", `enum D { D0 = 0; }`},
		{"syntax-message", "syntax = \"proto3\";\nmessage D {}"},
		{"syntax-package-import", "syntax = \"proto3\";\npackage d;\nimport \"c07/dep_b.proto\";"},
	}
	for _, b := range stmtBodies {
		add("only:"+b.name+":no-final-newline", b.text)
		add("only:"+b.name, b.text+"\n")
		// comments in front of the first and behind the last statement, in every attachment
		add("only:"+b.name+":header-comment", "// d1 header\n\n"+b.text+"\n")
		add("only:"+b.name+":leading-comment", "/* d1 */\n"+b.text+"\n")
		add("only:"+b.name+":trailing-comment-no-final-newline", b.text+" // d1 trailing")
		add("only:"+b.name+":trailing-block-no-final-newline", b.text+" /* d1 trailing */")
		add("only:"+b.name+":trailing-comment", b.text+" // d1 trailing\n")
		// (one EMPTY comment per text: comments are told apart by their words)
		add("only:"+b.name+":empty-line-comment-after-no-final-newline", b.text+"\n//")
		add("only:"+b.name+":empty-block-comment-before", "/**/\n"+b.text+"\n")
		add("only:"+b.name+":comment-after-no-final-newline", b.text+"\n// d1 after")
		add("only:"+b.name+":comment-after", b.text+"\n// d1 after\n")
		add("only:"+b.name+":detached-comment-after-no-final-newline", b.text+"\n\n\n/* d1 after */")
		if thorough || r.Chance(1, 2) {
			add("only:"+b.name+":comments-around", bom+"// d1\n\n/* d2 */ "+b.text+" // d3\n// d4\n\n// d5")
			add("only:"+b.name+":bom", bom+b.text)
			add("only:"+b.name+":crlf", strings.ReplaceAll(b.text, "\n", "\r\n")+"\r\n// d1\r\n")
		}
	}
	// texts that do not parse at all: the CLI must fail and leave the file alone
	add("unparsable:semicolon", ";")
	add("unparsable:semicolons", ";;\n;")
	add("unparsable:comment-semicolon", "// d1\n;")
	add("unparsable:semicolon-comment", "; // d1\n")
	add("unparsable:unterminated-block", "/* d1")
	add("unparsable:garbage", "// d1\n}\n")
	// seeded random concatenations of the pieces above
	pieces := []string{"// r%d\n", "/* r%d */", "/* r%d */\n", "\n", "\n\n", " ", "\t", "// r%d", "/*\n r%d\n*/\n", "\r\n"}
	tails := []string{"", "", `syntax = "proto3";`, "package d;", "message D {}", ";"}
	n := 12
	if thorough {
		n = 150
	}
	for i := 0; i < n; i++ {
		var sb strings.Builder
		id := 0
		part := func() {
			k := r.Intn(5)
			for j := 0; j < k; j++ {
				id++
				p := hx.Pick(r, pieces)
				if strings.Contains(p, "%d") {
					p = fmt.Sprintf(p, id)
				}
				if strings.HasSuffix(sb.String(), "// r"+fmt.Sprint(id-1)) {
					sb.WriteString("\n")
				}
				sb.WriteString(p)
			}
		}
		part()
		t := hx.Pick(r, tails)
		if t != "" {
			if s := sb.String(); s != "" && !strings.HasSuffix(s, "\n") && strings.Contains(s[strings.LastIndex(s, "\n")+1:], "//") {
				sb.WriteString("\n")
			}
			sb.WriteString(t)
			part()
		}
		add(fmt.Sprintf("random:%d", i), sb.String())
	}
	return out
}

// runBufCLI runs the real root command of the buf CLI in process.
func runBufCLI(home string, args ...string) (exit int, stdout, stderr string) {
	var so, se bytes.Buffer
	defer func() {
		if p := recover(); p != nil {
			exit, stdout, stderr = -2, so.String(), se.String()+fmt.Sprintf("\npanic: %v", p)
		}
	}()
	env := map[string]string{
		"HOME":          home,
		"BUF_CACHE_DIR": filepath.Join(home, ".cache"),
		"PATH":          os.Getenv("PATH"),
		"NO_COLOR":      "1",
	}
	err := appcmd.Run(context.Background(),
		app.NewContainer(env, strings.NewReader(""), &so, &se, append([]string{"buf"}, args...)...),
		bufcmd.NewRootCommand("buf"))
	return app.GetExitCode(err), so.String(), se.String()
}

func sameComments(a, b string) (missing, extra []string) {
	ka, kb := sortedCopy(commentKeys(a)), sortedCopy(commentKeys(b))
	return diffMultiset(ka, kb), diffMultiset(kb, ka)
}

// splitDiff cuts the output of `buf format -d` into one section per file (keyed by base name).
func splitDiff(text string) map[string]string {
	out := map[string]string{}
	cur := ""
	var sb strings.Builder
	flush := func() {
		if cur != "" {
			out[cur] = sb.String()
		}
		sb.Reset()
	}
	for _, line := range strings.SplitAfter(text, "\n") {
		if strings.HasPrefix(line, "diff -u ") {
			flush()
			f := strings.Fields(line)
			cur = filepath.Base(f[len(f)-1])
			continue
		}
		sb.WriteString(line)
	}
	flush()
	return out
}

func applyPatch(scratch, original, section string) (string, error) {
	in := filepath.Join(scratch, "patch-in")
	outp := filepath.Join(scratch, "patch-out")
	if err := os.WriteFile(in, []byte(original), 0o644); err != nil {
		return "", err
	}
	_ = os.Remove(outp)
	cmd := exec.Command("patch", "-s", "-o", outp, in)
	cmd.Stdin = strings.NewReader(section)
	if b, err := cmd.CombinedOutput(); err != nil {
		return "", fmt.Errorf("patch: %v: %s", err, b)
	}
	b, err := os.ReadFile(outp)
	return string(b), err
}

func writeDegDir(dir string, names []string, texts map[string]string) error {
	if err := os.RemoveAll(dir); err != nil {
		return err
	}
	if err := os.MkdirAll(dir, 0o755); err != nil {
		return err
	}
	for _, n := range names {
		if err := os.WriteFile(filepath.Join(dir, n), []byte(texts[n]), 0o644); err != nil {
			return err
		}
	}
	return nil
}

// runDegenerate runs the degenerate-file family through FormatFileNode, FormatBucket and the CLI.
func runDegenerate(run *hx.Run, seen map[string]bool, only int, print bool) {
	r := hx.NewRand(run.Seed ^ 0xde9e)
	texts := degTexts(r, run.Thorough())
	fail := func(class, what string, idx int, d degText, extra map[string]any) {
		in := map[string]any{"name": d.name, "source": d.text}
		for k, v := range extra {
			in[k] = v
		}
		run.Count("failure:" + class)
		run.Fail(hx.OracleFailure{Class: class, What: fmt.Sprintf("degenerate text %d (%s): %s", idx, d.name, what), Input: in,
			Replay: fmt.Sprintf("build/c07 --seed %d --tier %s --only-degenerate %d --out /tmp/c07-replay --print", run.Seed, run.Tier, idx)})
	}
	// ---- (A) FormatFileNode
	apiOut := map[int]string{} // parsable texts only
	var parsable []int
	for i, d := range texts {
		if only >= 0 && i != only {
			continue
		}
		_, perr := parse(d.text)
		v, _, gerr := judge(d.text)
		if print {
			fmt.Printf("text %d %s: %q\n==== formatted\n%q\n==== parse=%v generr=%v class=%q what=%s\n", i, d.name, d.text, v.out, perr, gerr, v.class, v.what)
		}
		kind := strings.SplitN(d.name, ":", 2)[0]
		if perr != nil {
			run.Count("degenerate:does-not-parse")
			if kind != "unparsable" && kind != "random" && !strings.Contains(d.name, "does-not-parse") {
				run.Count("degenerate:UNEXPECTEDLY-unparsable:" + d.name)
			}
			continue
		}
		if gerr != nil {
			// parses but does not link (cannot happen for these texts): visible, not a case
			run.Count("degenerate:does-not-link")
			continue
		}
		run.Count("family:degenerate")
		run.Count("degenerate:" + kind)
		if len(commentKeys(d.text)) > 0 && len(strings.Fields(stripComments(d.text))) == 0 {
			run.Count("degenerate:comments-and-nothing-else")
		}
		if !strings.HasSuffix(d.text, "\n") {
			run.Count("degenerate:no-final-newline")
		}
		if strings.HasPrefix(d.text, bom) {
			run.Count("degenerate:bom")
		}
		parsable = append(parsable, i)
		apiOut[i] = v.out
		if v.class != "" {
			p := &program{toks: nil, gaps: []string{d.text}, family: "degenerate", syntax: "none"}
			classes, _ := classifyAll(p, v)
			for _, c := range classes {
				fail(c, v.what, i, d, map[string]any{"formatted": v.out})
			}
			run.Case("lexonly\t"+hx.Enc(d.text), lexFacts(d.text), true)
			delete(apiOut, i)
			parsable = parsable[:len(parsable)-1]
			continue
		}
		run.Case("fmt\t"+hx.Enc(d.text)+"\t"+hx.Enc(v.out)+"\t"+hx.Enc(v.out2), "valid "+facts(d.text, v.out), d.text != v.out)
		if i == 20 {
			run.Sample(map[string]any{"family": "degenerate", "name": d.name, "source": d.text, "formatted": v.out})
		}
	}
	fileName := func(i int) string { return fmt.Sprintf("d%04d.proto", i) }
	// ---- (B) FormatBucket
	ctx := context.Background()
	func() {
		defer func() {
			if p := recover(); p != nil {
				fail("formatter-panic:format-bucket", fmt.Sprint(p), -1, degText{name: "all"}, nil)
			}
		}()
		bucket := storagemem.NewReadWriteBucket()
		for _, i := range parsable {
			if err := storage.PutPath(ctx, bucket, "x/"+fileName(i), []byte(texts[i].text)); err != nil {
				panic(err)
			}
		}
		_ = storage.PutPath(ctx, bucket, "x/README.md", []byte("// not a proto file"))
		formatted, err := bufformat.FormatBucket(ctx, bucket)
		if err != nil {
			fail("format-bucket-error", err.Error(), -1, degText{name: "all"}, nil)
			return
		}
		for _, i := range parsable {
			run.Eval()
			b, err := storage.ReadPath(ctx, formatted, "x/"+fileName(i))
			if err != nil {
				fail("format-bucket-file-missing", err.Error(), i, texts[i], nil)
				continue
			}
			if miss, extra := sameComments(texts[i].text, string(b)); len(miss)+len(extra) > 0 {
				fail("comment-dropped:format-bucket", fmt.Sprintf("FormatBucket: comments missing %q, extra %q", miss, extra), i, texts[i], map[string]any{"formatted": string(b)})
			} else if string(b) != apiOut[i] {
				fail("format-bucket-differs-from-format-file-node", firstDiff(apiOut[i], string(b)), i, texts[i], map[string]any{"formatted": string(b), "format_file_node": apiOut[i]})
			}
		}
		run.Count("degenerate:format-bucket-files")
	}()
	// ---- (C) the CLI
	scratch := filepath.Join(run.OutDir, "degenerate")
	_ = os.RemoveAll(scratch)
	if err := os.MkdirAll(scratch, 0o755); err != nil {
		panic(err)
	}
	home := filepath.Join(scratch, "home")
	_ = os.MkdirAll(home, 0o755)
	names := []string{}
	byName := map[string]string{}
	idxOf := map[string]int{}
	anyChange := false
	for _, i := range parsable {
		n := fileName(i)
		names = append(names, n)
		byName[n] = texts[i].text
		idxOf[n] = i
		if apiOut[i] != texts[i].text {
			anyChange = true
		}
	}
	sort.Strings(names)
	if len(names) > 0 {
		// -w, twice
		dirW := filepath.Join(scratch, "w")
		if err := writeDegDir(dirW, names, byName); err != nil {
			panic(err)
		}
		exit, _, stderr := runBufCLI(home, "format", dirW, "-w")
		if exit != 0 {
			fail("buf-format-w-fails", fmt.Sprintf("exit %d: %s", exit, stderr), -1, degText{name: "all"}, nil)
		}
		written := map[string]string{}
		for _, n := range names {
			b, _ := os.ReadFile(filepath.Join(dirW, n))
			written[n] = string(b)
		}
		exit2, _, stderr2 := runBufCLI(home, "format", dirW, "-w")
		for _, n := range names {
			i := idxOf[n]
			run.Eval()
			b, _ := os.ReadFile(filepath.Join(dirW, n))
			second := string(b)
			if miss, extra := sameComments(byName[n], written[n]); len(miss)+len(extra) > 0 {
				fail("comment-dropped:buf-format-w", fmt.Sprintf("on disk after `buf format -w`: comments missing %q, extra %q (%d bytes before, %d after)", miss, extra, len(byName[n]), len(written[n])),
					i, texts[i], map[string]any{"written": written[n]})
				continue
			}
			if written[n] != apiOut[i] {
				fail("buf-format-w-differs-from-format-file-node", firstDiff(apiOut[i], written[n]), i, texts[i], map[string]any{"written": written[n], "format_file_node": apiOut[i]})
				continue
			}
			if second != written[n] {
				fail("not-idempotent:buf-format-w", firstDiff(written[n], second), i, texts[i], map[string]any{"written": written[n], "written_again": second})
				continue
			}
			// what is on disk goes to the Lean checker too
			run.Case("fmt\t"+hx.Enc(byName[n])+"\t"+hx.Enc(written[n])+"\t"+hx.Enc(second), "valid "+facts(byName[n], written[n]), byName[n] != written[n])
		}
		if exit2 != 0 {
			// (reported behind the per-file verdicts, which name the file that went wrong)
			fail("buf-format-w-fails", fmt.Sprintf("second run over the files written by the first: exit %d: %s", exit2, stderr2), -1, degText{name: "all"}, nil)
		}
		run.Count("degenerate:cli-w")
		// -d, -d --exit-code, --exit-code on a fresh copy
		dirD := filepath.Join(scratch, "d")
		if err := writeDegDir(dirD, names, byName); err != nil {
			panic(err)
		}
		exit, diffText, stderr := runBufCLI(home, "format", dirD, "-d")
		if exit != 0 {
			fail("buf-format-d-fails", fmt.Sprintf("exit %d: %s", exit, stderr), -1, degText{name: "all"}, nil)
		}
		sections := splitDiff(diffText)
		for _, n := range names {
			i := idxOf[n]
			run.Eval()
			if b, _ := os.ReadFile(filepath.Join(dirD, n)); string(b) != byName[n] {
				fail("buf-format-d-modifies-file", "the file changed on disk", i, texts[i], nil)
			}
			sec, has := sections[n]
			if apiOut[i] == byName[n] {
				if has {
					fail("buf-format-d-wrong", "a diff is printed for a file that formatting does not change", i, texts[i], map[string]any{"diff": sec})
				}
				continue
			}
			if !has {
				fail("buf-format-d-wrong", "no diff is printed for a file that formatting changes", i, texts[i], map[string]any{"format_file_node": apiOut[i]})
				continue
			}
			got, err := applyPatch(scratch, byName[n], sec)
			if err != nil {
				fail("buf-format-d-wrong", "the printed diff does not apply: "+err.Error(), i, texts[i], map[string]any{"diff": sec})
			} else if got != apiOut[i] {
				if miss, extra := sameComments(byName[n], got); len(miss)+len(extra) > 0 {
					fail("comment-dropped:buf-format-d", fmt.Sprintf("applying the printed diff loses comments %q (extra %q)", miss, extra), i, texts[i], map[string]any{"diff": sec})
				} else {
					fail("buf-format-d-wrong", "applying the printed diff does not give the formatted text: "+firstDiff(apiOut[i], got), i, texts[i], map[string]any{"diff": sec})
				}
			}
		}
		wantExit := 0
		if anyChange {
			wantExit = 100
		}
		for _, args := range [][]string{{"format", dirD, "-d", "--exit-code"}, {"format", dirD, "--exit-code"}} {
			run.Eval()
			if exit, _, stderr := runBufCLI(home, args...); exit != wantExit {
				fail("buf-format-exit-code-wrong", fmt.Sprintf("buf %s: exit %d, want %d: %s", strings.Join(args[2:], " "), exit, wantExit, stderr), -1, degText{name: "all"}, nil)
			}
		}
		// a directory in which nothing changes: exit 0 with --exit-code
		dirF := filepath.Join(scratch, "formatted")
		if err := writeDegDir(dirF, names, written); err == nil {
			run.Eval()
			if exit, so, stderr := runBufCLI(home, "format", dirF, "-d", "--exit-code"); exit != 0 || so != "" {
				fail("buf-format-exit-code-wrong", fmt.Sprintf("formatted directory: exit %d, stdout %q, stderr %s", exit, so, stderr), -1, degText{name: "all"}, nil)
			}
		}
		// -o <dir>
		dirO := filepath.Join(scratch, "o")
		_ = os.RemoveAll(dirO)
		exit, _, stderr = runBufCLI(home, "format", dirD, "-o", dirO)
		if exit != 0 {
			fail("buf-format-o-fails", fmt.Sprintf("exit %d: %s", exit, stderr), -1, degText{name: "all"}, nil)
		} else {
			for _, n := range names {
				i := idxOf[n]
				run.Eval()
				b, err := os.ReadFile(filepath.Join(dirO, n))
				if err != nil {
					fail("buf-format-o-file-missing", err.Error(), i, texts[i], nil)
				} else if miss, extra := sameComments(byName[n], string(b)); len(miss)+len(extra) > 0 {
					fail("comment-dropped:buf-format-o", fmt.Sprintf("comments missing %q, extra %q", miss, extra), i, texts[i], map[string]any{"written": string(b)})
				} else if string(b) != apiOut[i] {
					fail("buf-format-o-differs-from-format-file-node", firstDiff(apiOut[i], string(b)), i, texts[i], map[string]any{"written": string(b)})
				}
			}
		}
		// single file to stdout, with and without --exit-code
		for k, n := range names {
			i := idxOf[n]
			if !run.Thorough() && only < 0 && (k+int(run.Seed))%2 != 0 && len(strings.Fields(stripComments(byName[n]))) > 0 {
				continue // quick: every comments-only / empty text, every second of the others
			}
			run.Eval()
			exit, so, stderr := runBufCLI(home, "format", filepath.Join(dirD, n), "--exit-code")
			want := 0
			if apiOut[i] != byName[n] {
				want = 100
			}
			if miss, extra := sameComments(byName[n], so); len(miss)+len(extra) > 0 {
				fail("comment-dropped:buf-format-stdout", fmt.Sprintf("comments missing %q, extra %q (stderr %s)", miss, extra, stderr), i, texts[i], map[string]any{"stdout": so})
			} else if so != apiOut[i] {
				fail("buf-format-stdout-differs-from-format-file-node", firstDiff(apiOut[i], so), i, texts[i], map[string]any{"stdout": so})
			} else if exit != want {
				fail("buf-format-exit-code-wrong", fmt.Sprintf("single file: exit %d, want %d: %s", exit, want, stderr), i, texts[i], nil)
			}
		}
		run.Count("degenerate:cli-d-o-stdout")
	}
	// texts that do not parse: the command fails and -w leaves the file alone
	for i, d := range texts {
		if only >= 0 && i != only {
			continue
		}
		if _, perr := parse(d.text); perr == nil {
			continue
		}
		run.Eval()
		dir := filepath.Join(scratch, "bad")
		if err := writeDegDir(dir, []string{"bad.proto", "good.proto"}, map[string]string{"bad.proto": d.text, "good.proto": "// keep d9\nmessage   G { }"}); err != nil {
			panic(err)
		}
		exit, so, _ := runBufCLI(home, "format", dir, "-w")
		b, _ := os.ReadFile(filepath.Join(dir, "bad.proto"))
		g, _ := os.ReadFile(filepath.Join(dir, "good.proto"))
		switch {
		case exit == 0:
			fail("buf-format-accepts-unparsable-file", "exit 0", i, d, map[string]any{"stdout": so, "on_disk": string(b)})
		case string(b) != d.text:
			fail("buf-format-w-modifies-unparsable-file", "the file that does not parse was rewritten", i, d, map[string]any{"on_disk": string(b)})
		default:
			if miss, _ := sameComments("// keep d9", string(g)); len(miss) > 0 {
				fail("comment-dropped:buf-format-w", "the parsable neighbour of a file that does not parse lost its comment", i, d, map[string]any{"on_disk": string(g)})
			}
		}
		run.Count("degenerate:cli-unparsable")
	}
}

// stripComments removes comments (and string literals stay) -- used only to tell whether a text
// has anything but comments and white space.
func stripComments(src string) string {
	var sb strings.Builder
	for _, p := range scan(src) {
		if p.kind != 'c' {
			sb.WriteString(p.text)
		}
	}
	s := sb.String()
	return strings.TrimPrefix(s, bom)
}
