package main

import (
	"fmt"
	"strconv"
	"strings"

	"github.com/bufbuild/verifharness/internal/hx"
)

// A generated program is a list of significant tokens plus the text of every gap (whitespace
// and comments) around them.  gaps[i] precedes toks[i]; gaps[len(toks)] ends the file.
type program struct {
	toks   []string
	gaps   []string
	empty  []bool // toks[i] is an empty statement
	family string
	syntax string
}

func (p *program) render() string {
	var sb strings.Builder
	for i, t := range p.toks {
		sb.WriteString(p.gaps[i])
		sb.WriteString(t)
	}
	sb.WriteString(p.gaps[len(p.toks)])
	return sb.String()
}

func isWordByte(c byte) bool {
	return c == '_' || (c >= '0' && c <= '9') || (c >= 'a' && c <= 'z') || (c >= 'A' && c <= 'Z')
}

// needSep: two tokens that would lex as one when written without a gap.
func needSep(a, b string) bool {
	if a == "" || b == "" {
		return false
	}
	la, fb := a[len(a)-1], b[0]
	endWord := isWordByte(la) || (la == '.' && len(a) > 1)
	startWord := isWordByte(fb) || (fb == '.' && len(b) > 1)
	return endWord && startWord
}

type gen struct {
	r      *hx.Rand
	toks   []string
	syntax string // proto2 | proto3 | editions
	pkg    string
	uid    int
	// what may be referenced
	msgTypes   []string
	enumTypes  []string // enum full name
	enumFirst  map[string]string
	extendable []string // messages with extension ranges (full name) and a free number counter
	extNum     int
	useOpts    bool
	wild       int // 0 clean, 1 light, 2 wild
	cid        int
	on         map[string]bool // known-defect constructs enabled for this program (see constructs)
	optDot     bool
}

// constructs lists the source constructs on which the unchanged formatter is known to violate
// the property (one entry per recorded finding).  Each is generated ONLY in its own family
// "k:<construct>"; everywhere else the generator avoids it, so any failure elsewhere is new.
// REPAIRED constructs ("lc-blockend": // comment containing "*/" printed in-line; "empty-first":
// empty statement right after the syntax line; "empty-body": body of empty statements only) are
// generated in EVERY family; their k: families remain as stress families with a higher rate.
var constructs = []string{"opt-spelling", "empty-comment", "adjacent-comment"}

const emptyMark = "\x01;"

func (g *gen) t(ss ...string) { g.toks = append(g.toks, ss...) }

func (g *gen) id(prefix string) string {
	g.uid++
	return prefix + strconv.Itoa(g.uid)
}

// ---------------------------------------------------------------- literals

var strAtoms = []string{"a", "b", "Z", "0", " ", "é", "日本", "//", "/*", "*/", "\"", "'", "\\", "\n", "\t", "\x00", "?", "x y", ";", "{", "}", "<", ",", "proto"}

func (g *gen) strContent() string {
	n := g.r.Intn(5)
	var sb strings.Builder
	for i := 0; i < n; i++ {
		sb.WriteString(hx.Pick(g.r, strAtoms))
	}
	return sb.String()
}

// quote writes one string literal token for the given content.
func (g *gen) quote(content string, escapeChance int) string {
	q := byte('"')
	if g.r.Chance(1, 3) {
		q = '\''
	}
	var sb strings.Builder
	sb.WriteByte(q)
	for _, r := range content {
		switch {
		case r == rune(q) || r == '\\':
			sb.WriteByte('\\')
			sb.WriteRune(r)
		case r == '\n':
			sb.WriteString(hx.Pick(g.r, []string{`\n`, `\012`, `\x0a`, `\x0A`}))
		case r == '\t':
			sb.WriteString(hx.Pick(g.r, []string{`\t`, `\11`, "\t"}))
		case r == 0:
			sb.WriteString(hx.Pick(g.r, []string{`\0`, `\000`, `\x00`}))
		case r == '\'' || r == '"':
			if g.r.Bool() {
				sb.WriteByte('\\')
			}
			sb.WriteRune(r)
		case r == '?':
			sb.WriteString(hx.Pick(g.r, []string{`?`, `\?`}))
		case r < 128 && g.r.Chance(escapeChance, 100):
			switch g.r.Intn(5) {
			case 0:
				fmt.Fprintf(&sb, `\x%02x`, r)
			case 1:
				fmt.Fprintf(&sb, `\%03o`, r)
			case 2:
				fmt.Fprintf(&sb, `\u%04x`, r)
			case 3:
				fmt.Fprintf(&sb, `\U%08X`, r)
			default:
				fmt.Fprintf(&sb, `\X%02X`, r)
			}
		case r >= 128 && g.r.Chance(escapeChance, 100):
			if r < 0x10000 && g.r.Bool() {
				fmt.Fprintf(&sb, `\u%04X`, r)
			} else {
				fmt.Fprintf(&sb, `\U%08x`, r)
			}
		default:
			sb.WriteRune(r)
		}
	}
	sb.WriteByte(q)
	return sb.String()
}

// str emits a string value: one literal, or several adjacent literals (concatenation).
func (g *gen) str(content string, escapeChance int) {
	rs := []rune(content)
	parts := 1
	if g.r.Chance(1, 4) {
		parts = 2 + g.r.Intn(2)
	}
	if parts == 1 || len(rs) == 0 && g.r.Bool() {
		g.t(g.quote(content, escapeChance))
		return
	}
	cut := make([]int, 0, parts+1)
	cut = append(cut, 0)
	for i := 1; i < parts; i++ {
		cut = append(cut, g.r.Intn(len(rs)+1))
	}
	cut = append(cut, len(rs))
	for i := 1; i < len(cut); i++ { // insertion sort
		for j := i; j > 0 && cut[j-1] > cut[j]; j-- {
			cut[j-1], cut[j] = cut[j], cut[j-1]
		}
	}
	for i := 0; i+1 < len(cut); i++ {
		g.t(g.quote(string(rs[cut[i]:cut[i+1]]), escapeChance))
	}
}

func mixCase(r *hx.Rand, s string) string {
	b := []byte(s)
	for i, c := range b {
		if c >= 'a' && c <= 'f' && r.Bool() {
			b[i] = c - 32
		}
	}
	return string(b)
}

func (g *gen) uintLit(v uint64) string {
	switch g.r.Intn(6) {
	case 0:
		return hx.Pick(g.r, []string{"0x", "0X"}) + mixCase(g.r, strconv.FormatUint(v, 16))
	case 1:
		return "0" + strconv.FormatUint(v, 8)
	case 2:
		if v < 8 {
			return "00" + strconv.FormatUint(v, 8)
		}
	}
	return strconv.FormatUint(v, 10)
}

// intVal emits a possibly negative integer value.
func (g *gen) intVal(max int) {
	v := uint64(g.r.Intn(max))
	if g.r.Chance(1, 4) {
		g.t("-")
	}
	g.t(g.uintLit(v))
}

var floatForms = []string{"1.5", "0.0", "1e3", "1E+3", "2.5e-3", ".5", "1.", "3.25E2", "1e10", "18446744073709551616", "0.125", "7", "0x10", "010"}

func (g *gen) floatVal(inMsgLit bool) {
	switch g.r.Intn(8) {
	case 0:
		g.t("inf")
	case 1:
		g.t("-", "inf")
	case 2:
		g.t("nan")
	case 3:
		if inMsgLit {
			g.t("-", hx.Pick(g.r, []string{"infinity", "Inf", "INF", "nan", "NaN", "Infinity"}))
		} else {
			g.t("-", "nan")
		}
	default:
		if g.r.Chance(1, 3) {
			g.t("-")
		}
		g.t(hx.Pick(g.r, floatForms))
	}
}

// ---------------------------------------------------------------- names

func (g *gen) qualified(full string) {
	// full is a dotted absolute name without leading dot
	if g.r.Chance(1, 4) {
		g.t(".")
	}
	parts := strings.Split(full, ".")
	for i, p := range parts {
		if i > 0 {
			g.t(".")
		}
		g.t(p)
	}
}

func (g *gen) fullName(name string, scope string) string {
	if scope != "" {
		return scope + "." + name
	}
	if g.pkg != "" {
		return g.pkg + "." + name
	}
	return name
}

// ---------------------------------------------------------------- option values (Cfg literals)

func (g *gen) colon(msgValue bool) {
	if !msgValue || g.r.Chance(2, 3) {
		g.t(":")
	}
}

func (g *gen) open() string {
	if g.r.Chance(1, 3) {
		g.t("<")
		return ">"
	}
	g.t("{")
	return "}"
}

func (g *gen) sep() {
	switch g.r.Intn(4) {
	case 0:
		g.t(",")
	case 1:
		g.t(";")
	}
}

// cfgFields emits the fields of a c07.opts.Cfg message literal.
func (g *gen) cfgFields(depth int) {
	n := g.r.Intn(5)
	if depth > 2 {
		n = g.r.Intn(2)
	}
	used := map[int]bool{}
	for i := 0; i < n; i++ {
		k := g.r.Intn(20)
		if used[k] && k != 2 && k != 4 && k != 10 && k != 15 {
			continue
		}
		used[k] = true
		switch k {
		case 0:
			g.t("a", ":")
			g.intVal(1000)
		case 1:
			g.t("s", ":")
			g.str(g.strContent(), 10)
		case 2: // repeated scalar: single value or list
			g.t("r", ":")
			if g.r.Bool() {
				g.intVal(100)
			} else {
				g.t("[")
				m := g.r.Intn(4)
				for j := 0; j < m; j++ {
					if j > 0 {
						g.t(",")
					}
					g.intVal(100)
				}
				g.t("]")
			}
		case 3:
			if depth < 4 {
				g.t("sub")
				g.colon(true)
				cl := g.open()
				g.cfgFields(depth + 1)
				g.t(cl)
			}
		case 4:
			if depth < 4 {
				g.t("subs")
				if g.r.Bool() {
					g.colon(true)
					cl := g.open()
					g.cfgFields(depth + 1)
					g.t(cl)
				} else {
					g.colon(true)
					g.t("[")
					m := g.r.Intn(3)
					for j := 0; j < m; j++ {
						if j > 0 {
							g.t(",")
						}
						cl := g.open()
						g.cfgFields(depth + 2)
						g.t(cl)
					}
					g.t("]")
				}
			}
		case 5:
			g.t("d", ":")
			g.floatVal(true)
		case 6:
			g.t("f", ":")
			g.floatVal(true)
		case 7:
			g.t("k", ":")
			if g.r.Chance(1, 4) {
				g.t(g.uintLit(uint64(g.r.Intn(3))))
			} else {
				g.t(hx.Pick(g.r, []string{"K0", "K1", "K2"}))
			}
		case 8:
			g.t("b", ":", hx.Pick(g.r, []string{"true", "false"}))
		case 9:
			g.t("y", ":")
			g.str(g.strContent(), 30)
		case 10:
			g.t("rs", ":")
			if g.r.Bool() {
				g.str(g.strContent(), 10)
			} else {
				g.t("[")
				m := 1 + g.r.Intn(3)
				for j := 0; j < m; j++ {
					if j > 0 {
						g.t(",")
					}
					g.str(g.strContent(), 10)
				}
				g.t("]")
			}
		case 11:
			g.t("i64", ":")
			g.intVal(1 << 30)
		case 12:
			g.t("u64", ":", g.uintLit(uint64(g.r.Intn(1<<30))))
		case 13:
			if depth < 3 {
				g.t("any")
				g.colon(true)
				cl := g.open()
				g.t("[", "type", ".", "googleapis", ".", "com", "/", "c07", ".", "opts", ".", "Cfg", "]")
				g.colon(true)
				cl2 := g.open()
				g.cfgFields(depth + 2)
				g.t(cl2)
				g.t(cl)
			}
		case 14:
			g.t("m")
			g.colon(true)
			cl := g.open()
			g.t("key", ":")
			g.str(g.id("k"), 0)
			g.sep()
			g.t("value", ":")
			g.intVal(50)
			g.t(cl)
		case 15:
			g.t("rd", ":")
			if g.r.Bool() {
				g.floatVal(true)
			} else {
				g.t("[")
				m := g.r.Intn(4)
				for j := 0; j < m; j++ {
					if j > 0 {
						g.t(",")
					}
					g.floatVal(true)
				}
				g.t("]")
			}
		case 16:
			g.t("Grp")
			g.colon(true)
			cl := g.open()
			if g.r.Bool() {
				g.t("ga", ":")
				g.intVal(9)
			}
			g.t(cl)
		case 17:
			g.t("[", "c07", ".", "opts", ".", "cext", "]", ":")
			g.intVal(77)
		case 18:
			if depth < 3 {
				g.t("[", "c07", ".", "opts", ".", "cmsg", "]")
				g.colon(true)
				cl := g.open()
				g.cfgFields(depth + 2)
				g.t(cl)
			}
		case 19:
			g.t("neg", ":")
			g.intVal(5000)
		}
		if i < n-1 || g.r.Chance(1, 3) {
			g.sep()
		}
	}
}

// ---------------------------------------------------------------- options

type optEntry struct {
	name  []string
	value []string
}

func (g *gen) capture(f func()) []string {
	save := g.toks
	g.toks = nil
	f()
	out := g.toks
	g.toks = save
	return out
}

func (g *gen) extName(prefix, opt string) []string {
	return g.capture(func() {
		g.t("(")
		if prefix == "f" && !g.on["opt-spelling"] {
			// one spelling per file for file-level options (they are sorted by spelling)
			if g.optDot {
				g.t(".")
			}
			for i, p := range []string{"c07", "opts", prefix + "_" + opt} {
				if i > 0 {
					g.t(".")
				}
				g.t(p)
			}
		} else {
			g.qualified("c07.opts." + prefix + "_" + opt)
		}
		g.t(")")
	})
}

// customOptions returns a list of custom option settings that are jointly valid.
func (g *gen) customOptions(prefix string, max int) []optEntry {
	if !g.useOpts || max <= 0 {
		return nil
	}
	var out []optEntry
	used := map[string]bool{}
	n := g.r.Intn(max + 1)
	for i := 0; i < n; i++ {
		var e optEntry
		switch k := g.r.Intn(12); k {
		case 0:
			if used["int"] {
				continue
			}
			used["int"] = true
			e.name = g.extName(prefix, "int")
			e.value = g.capture(func() { g.intVal(1 << 20) })
		case 1:
			if used["str"] {
				continue
			}
			used["str"] = true
			e.name = g.extName(prefix, "str")
			e.value = g.capture(func() { g.str(g.strContent(), 10) })
		case 2, 3:
			e.name = g.extName(prefix, "rep")
			e.value = g.capture(func() { g.intVal(1000) })
		case 4:
			if used["msg"] {
				continue
			}
			used["msg"] = true
			used["msgWhole"] = true
			e.name = g.extName(prefix, "msg")
			e.value = g.capture(func() { g.t("{"); g.cfgFields(0); g.t("}") })
		case 5:
			sub := hx.Pick(g.r, []string{"a", "s", "r", "sub", "cext"})
			if used["msgWhole"] || (sub != "r" && used["msg."+sub]) {
				continue
			}
			used["msg."+sub] = true
			used["msg"] = true
			e.name = g.extName(prefix, "msg")
			switch sub {
			case "a":
				e.name = append(e.name, ".", "a")
				e.value = g.capture(func() { g.intVal(100) })
			case "s":
				e.name = append(e.name, ".", "s")
				e.value = g.capture(func() { g.str(g.strContent(), 10) })
			case "r":
				e.name = append(e.name, ".", "r")
				e.value = g.capture(func() { g.intVal(100) })
			case "sub":
				e.name = append(e.name, ".", "sub", ".", "d")
				e.value = g.capture(func() { g.floatVal(false) })
			case "cext":
				e.name = append(e.name, ".", "(", "c07", ".", "opts", ".", "cext", ")")
				e.value = g.capture(func() { g.intVal(100) })
			}
		case 6:
			e.name = g.extName(prefix, "msgs")
			e.value = g.capture(func() { g.t("{"); g.cfgFields(1); g.t("}") })
		case 7:
			if used["dbl"] {
				continue
			}
			used["dbl"] = true
			e.name = g.extName(prefix, "dbl")
			e.value = g.capture(func() { g.floatVal(false) })
		case 8:
			if used["kind"] {
				continue
			}
			used["kind"] = true
			e.name = g.extName(prefix, "kind")
			e.value = []string{hx.Pick(g.r, []string{"K0", "K1", "K2"})}
		case 9:
			if used["bool"] {
				continue
			}
			used["bool"] = true
			e.name = g.extName(prefix, "bool")
			e.value = []string{hx.Pick(g.r, []string{"true", "false"})}
		default:
			e.name = g.extName(prefix, "reps")
			e.value = g.capture(func() { g.str(g.strContent(), 10) })
		}
		out = append(out, e)
	}
	return out
}

func boolTok(r *hx.Rand) []string { return []string{hx.Pick(r, []string{"true", "false"})} }

func (g *gen) builtinFileOptions() []optEntry {
	var out []optEntry
	add := func(name string, val []string) {
		if g.r.Chance(1, 4) {
			out = append(out, optEntry{name: []string{name}, value: val})
		}
	}
	add("java_package", g.capture(func() { g.str("com.example."+g.id("p"), 5) }))
	add("java_outer_classname", g.capture(func() { g.str(g.id("Outer"), 5) }))
	add("java_multiple_files", boolTok(g.r))
	add("go_package", g.capture(func() { g.str("example.com/"+g.id("go")+";gopkg", 5) }))
	add("optimize_for", []string{hx.Pick(g.r, []string{"SPEED", "CODE_SIZE"})})
	add("cc_enable_arenas", boolTok(g.r))
	add("deprecated", boolTok(g.r))
	add("objc_class_prefix", g.capture(func() { g.str("OBJ", 5) }))
	add("csharp_namespace", g.capture(func() { g.str("Example.Ns", 5) }))
	add("php_namespace", g.capture(func() { g.str(g.strContent(), 10) }))
	add("ruby_package", g.capture(func() { g.str("Example::Pkg", 5) }))
	add("swift_prefix", g.capture(func() { g.str("SW", 5) }))
	add("cc_generic_services", boolTok(g.r))
	add("java_generic_services", boolTok(g.r))
	add("py_generic_services", boolTok(g.r))
	if g.syntax == "editions" {
		add("features.enum_type", []string{hx.Pick(g.r, []string{"OPEN", "CLOSED"})})
		add("features.json_format", []string{hx.Pick(g.r, []string{"ALLOW", "LEGACY_BEST_EFFORT"})})
	} else {
		add("java_string_check_utf8", boolTok(g.r))
	}
	return out
}

func (g *gen) optionStmt(e optEntry) {
	g.t("option")
	g.t(nameToks(e.name)...)
	g.t("=")
	g.t(e.value...)
	g.t(";")
	g.maybeEmpty()
}

// nameToks splits dotted builtin names like features.enum_type into tokens.
func nameToks(name []string) []string {
	if len(name) == 1 && strings.Contains(name[0], ".") {
		parts := strings.Split(name[0], ".")
		var out []string
		for i, p := range parts {
			if i > 0 {
				out = append(out, ".")
			}
			out = append(out, p)
		}
		return out
	}
	return name
}

func (g *gen) compact(entries []optEntry) {
	if len(entries) == 0 {
		return
	}
	g.t("[")
	for i, e := range entries {
		if i > 0 {
			g.t(",")
		}
		g.t(nameToks(e.name)...)
		g.t("=")
		g.t(e.value...)
	}
	g.t("]")
}

func (g *gen) maybeEmpty() {
	if g.r.Chance(1, 12) {
		n := 1 + g.r.Intn(2)
		for i := 0; i < n; i++ {
			g.t(emptyMark)
		}
	}
}

// maybeEmptyBodyStart emits empty statements right after an opening brace, also when no real
// element follows (a body made of nothing but empty statements: repaired finding, see constructs).
func (g *gen) maybeEmptyBodyStart(hasElements bool) {
	_ = hasElements
	g.maybeEmpty()
}

// ---------------------------------------------------------------- declarations

var scalarTypes = []string{"int32", "int64", "uint32", "uint64", "sint32", "sint64", "fixed32", "fixed64", "sfixed32", "sfixed64", "bool", "string", "bytes", "double", "float"}
var oddNames = []string{"to", "max", "inf", "nan", "stream", "returns", "map", "public", "weak", "syntax", "import", "package", "service", "rpc", "extensions", "reserved"}

func (g *gen) fieldName() string {
	if g.r.Chance(1, 15) {
		return hx.Pick(g.r, oddNames) + "_" + strconv.Itoa(g.uid)
	}
	return g.id("f")
}

func (g *gen) defaultFor(typ string) []string {
	return g.capture(func() {
		switch typ {
		case "bool":
			g.t(hx.Pick(g.r, []string{"true", "false"}))
		case "string":
			g.str(g.strContent(), 10)
		case "bytes":
			g.str(g.strContent(), 40)
		case "double", "float":
			g.floatVal(false)
		case "uint32", "uint64", "fixed32", "fixed64":
			g.t(g.uintLit(uint64(g.r.Intn(1 << 16))))
		default:
			g.intVal(1 << 16)
		}
	})
}

type fieldCtx struct {
	inOneof, inExtend bool
	numbers           *int
}

func (g *gen) field(ctx fieldCtx) {
	// type
	kind := g.r.Intn(10)
	label := ""
	switch {
	case ctx.inOneof:
	case g.syntax == "proto2":
		label = hx.Pick(g.r, []string{"optional", "optional", "repeated", "required"})
		if ctx.inExtend && label == "required" {
			label = "optional"
		}
	case g.syntax == "proto3":
		label = hx.Pick(g.r, []string{"", "", "optional", "repeated"})
	default:
		label = hx.Pick(g.r, []string{"", "", "repeated"})
	}
	if label != "" {
		g.t(label)
	}
	typ := ""
	switch {
	case kind < 6 || (len(g.msgTypes) == 0 && len(g.enumTypes) == 0):
		typ = hx.Pick(g.r, scalarTypes)
		g.t(typ)
	case kind < 8 && len(g.msgTypes) > 0:
		typ = "msg"
		g.qualified(hx.Pick(g.r, g.msgTypes))
	case len(g.enumTypes) > 0:
		typ = "enum:" + hx.Pick(g.r, g.enumTypes)
		g.qualified(strings.TrimPrefix(typ, "enum:"))
	default:
		typ = hx.Pick(g.r, scalarTypes)
		g.t(typ)
	}
	if typ == "msg" && label == "required" {
		// fine
	}
	g.t(g.fieldName(), "=")
	*ctx.numbers++
	g.t(g.uintLit(uint64(*ctx.numbers)))
	// options
	var entries []optEntry
	if g.r.Chance(1, 3) {
		if g.r.Chance(1, 3) {
			entries = append(entries, optEntry{name: []string{"deprecated"}, value: boolTok(g.r)})
		}
		if !ctx.inExtend && g.r.Chance(1, 3) {
			entries = append(entries, optEntry{name: []string{"json_name"}, value: g.capture(func() { g.str(g.id("j"), 5) })})
		}
		hasDefault := (g.syntax == "proto2" && label == "optional") || (g.syntax == "editions" && label == "")
		if hasDefault && typ != "msg" && g.r.Chance(2, 3) {
			if strings.HasPrefix(typ, "enum:") {
				entries = append(entries, optEntry{name: []string{"default"}, value: []string{g.enumFirst[strings.TrimPrefix(typ, "enum:")]}})
			} else {
				entries = append(entries, optEntry{name: []string{"default"}, value: g.defaultFor(typ)})
			}
		}
		if label == "repeated" && typ != "msg" && typ != "string" && typ != "bytes" && g.syntax != "editions" && g.r.Chance(1, 3) {
			entries = append(entries, optEntry{name: []string{"packed"}, value: boolTok(g.r)})
		}
		if g.syntax == "editions" && label == "" && typ != "msg" && !ctx.inOneof && !ctx.inExtend && g.r.Chance(1, 4) {
			entries = append(entries, optEntry{name: []string{"features.field_presence"}, value: []string{hx.Pick(g.r, []string{"IMPLICIT", "EXPLICIT"})}})
		}
		entries = append(entries, g.customOptions("fld", 3)...)
		// a default and implicit presence cannot be combined
		hasDef, implicit := false, false
		for _, e := range entries {
			if e.name[0] == "default" {
				hasDef = true
			}
			if e.name[0] == "features.field_presence" && e.value[0] == "IMPLICIT" {
				implicit = true
			}
		}
		if hasDef && implicit {
			var keep []optEntry
			for _, e := range entries {
				if e.name[0] != "default" {
					keep = append(keep, e)
				}
			}
			entries = keep
		}
		hx.Shuffle(g.r, entries)
		g.compact(entries)
	}
	g.t(";")
	if !ctx.inOneof && !ctx.inExtend {
		g.maybeEmpty()
	}
}

func (g *gen) mapField(numbers *int) {
	g.t("map", "<", hx.Pick(g.r, []string{"string", "int32", "int64", "uint32", "bool", "sfixed64"}), ",")
	switch {
	case len(g.msgTypes) > 0 && g.r.Chance(1, 3):
		g.qualified(hx.Pick(g.r, g.msgTypes))
	case len(g.enumTypes) > 0 && g.r.Chance(1, 3):
		g.qualified(hx.Pick(g.r, g.enumTypes))
	default:
		g.t(hx.Pick(g.r, scalarTypes))
	}
	g.t(">", g.fieldName(), "=")
	*numbers++
	g.t(g.uintLit(uint64(*numbers)))
	if g.r.Chance(1, 4) {
		g.compact(append([]optEntry{{name: []string{"deprecated"}, value: boolTok(g.r)}}, g.customOptions("fld", 1)...))
	}
	g.t(";")
	g.maybeEmpty()
}

func (g *gen) ranges(count int, base *int, allowMax bool) {
	for i := 0; i < count; i++ {
		if i > 0 {
			g.t(",")
		}
		*base += 1 + g.r.Intn(3)
		lo := *base
		g.t(g.uintLit(uint64(lo)))
		if g.r.Bool() {
			g.t("to")
			if allowMax && i == count-1 && g.r.Chance(1, 3) {
				g.t("max")
				*base = 1 << 29
			} else {
				*base += g.r.Intn(5)
				g.t(g.uintLit(uint64(*base)))
			}
		}
	}
}

func (g *gen) reservedNames() {
	n := 1 + g.r.Intn(3)
	for i := 0; i < n; i++ {
		if i > 0 {
			g.t(",")
		}
		name := g.id("res")
		if g.syntax == "editions" {
			g.t(name)
		} else {
			g.str(name, 0)
		}
	}
}

func (g *gen) message(scope string, depth int) {
	name := g.id("M")
	full := g.fullName(name, scope)
	g.t("message", name, "{")
	numbers := 0
	n := g.r.Intn(7)
	if depth > 1 {
		n = g.r.Intn(3)
	}
	if n > 0 {
		// the first element is always a field so that the body is never empties only
		g.maybeEmptyBodyStart(true)
		g.field(fieldCtx{numbers: &numbers})
		n--
	} else {
		g.maybeEmptyBodyStart(false)
	}
	extensible, optsDone := false, false
	for i := 0; i < n; i++ {
		switch k := g.r.Intn(20); {
		case k < 8:
			g.field(fieldCtx{numbers: &numbers})
		case k == 8:
			g.mapField(&numbers)
		case k == 9 && depth < 3:
			g.message(full, depth+1)
		case k == 10:
			g.enum(full)
		case k == 11:
			// oneof
			g.t("oneof", g.id("o"), "{")
			for _, e := range g.customOptions("o", 2) {
				g.t("option")
				g.t(e.name...)
				g.t("=")
				g.t(e.value...)
				g.t(";")
			}
			m := 1 + g.r.Intn(3)
			for j := 0; j < m; j++ {
				g.field(fieldCtx{inOneof: true, numbers: &numbers})
			}
			g.t("}")
			g.maybeEmpty()
		case k == 12 && g.syntax == "proto2":
			// group
			g.t(hx.Pick(g.r, []string{"optional", "repeated"}), "group", g.id("G"), "=")
			numbers++
			g.t(g.uintLit(uint64(numbers)))
			if g.r.Chance(1, 4) {
				g.compact([]optEntry{{name: []string{"deprecated"}, value: boolTok(g.r)}})
			}
			g.t("{")
			gn := 0
			m := g.r.Intn(3)
			for j := 0; j < m; j++ {
				g.field(fieldCtx{numbers: &gn})
			}
			g.t("}")
			g.maybeEmpty()
		case k == 13:
			numbers += 2
			g.t("reserved")
			g.ranges(1+g.r.Intn(3), &numbers, false)
			g.t(";")
			g.maybeEmpty()
		case k == 14:
			g.t("reserved")
			g.reservedNames()
			g.t(";")
			g.maybeEmpty()
		case k == 15 && g.syntax != "proto3" && !extensible:
			extensible = true
			numbers += 2
			g.t("extensions")
			g.ranges(1+g.r.Intn(2), &numbers, false)
			if g.r.Chance(1, 3) {
				ce := g.customOptions("x", 2)
				g.compact(ce)
			}
			g.t(";")
			g.maybeEmpty()
		case k == 16 && !optsDone:
			optsDone = true
			for _, e := range append([]optEntry{{name: []string{"deprecated"}, value: boolTok(g.r)}}, g.customOptions("m", 3)...) {
				g.optionStmt(e)
			}
		case k == 17 && len(g.extendable) > 0:
			g.extend()
		default:
			g.field(fieldCtx{numbers: &numbers})
		}
	}
	g.t("}")
	g.maybeEmpty()
	g.msgTypes = append(g.msgTypes, full)
}

func (g *gen) enum(scope string) {
	name := g.id("E")
	full := g.fullName(name, scope)
	g.t("enum", name, "{")
	g.maybeEmpty()
	if g.r.Chance(1, 4) {
		for _, e := range append([]optEntry{{name: []string{"deprecated"}, value: boolTok(g.r)}}, g.customOptions("e", 2)...) {
			g.optionStmt(e)
		}
	}
	n := 1 + g.r.Intn(4)
	first := ""
	num := 0
	for i := 0; i < n; i++ {
		vn := fmt.Sprintf("%s_V%d", strings.ToUpper(name), i)
		if i == 0 {
			first = vn
			g.t(vn, "=", g.uintLit(0))
		} else {
			num += 1 + g.r.Intn(3)
			g.t(vn, "=")
			if g.r.Chance(1, 4) && g.syntax != "proto3" {
				g.t("-", g.uintLit(uint64(num)))
			} else {
				g.t(g.uintLit(uint64(num)))
			}
		}
		if g.r.Chance(1, 4) {
			g.compact(append([]optEntry{{name: []string{"deprecated"}, value: boolTok(g.r)}}, g.customOptions("ev", 2)...))
		}
		g.t(";")
		g.maybeEmpty()
	}
	if g.r.Chance(1, 4) {
		g.t("reserved")
		base := 100
		cnt := 1 + g.r.Intn(2)
		for i := 0; i < cnt; i++ {
			if i > 0 {
				g.t(",")
			}
			base += 2 + g.r.Intn(3)
			g.t(g.uintLit(uint64(base)))
			if g.r.Bool() {
				g.t("to")
				if i == cnt-1 && g.r.Bool() {
					g.t("max")
				} else {
					base += 3
					g.t(g.uintLit(uint64(base)))
				}
			}
		}
		g.t(";")
	}
	if g.r.Chance(1, 5) {
		g.t("reserved")
		g.reservedNames()
		g.t(";")
	}
	g.t("}")
	g.maybeEmpty()
	g.enumTypes = append(g.enumTypes, full)
	g.enumFirst[full] = first
}

func (g *gen) extend() {
	target := hx.Pick(g.r, g.extendable)
	g.t("extend")
	g.qualified(target)
	g.t("{")
	n := 1 + g.r.Intn(2)
	for i := 0; i < n; i++ {
		num := g.extNum
		g.field(fieldCtx{inExtend: true, numbers: &num})
		g.extNum++
	}
	g.t("}")
	g.maybeEmpty()
}

func (g *gen) service() {
	g.t("service", g.id("S"), "{")
	hasOpts := g.r.Chance(1, 3)
	n := g.r.Intn(4)
	if len(g.msgTypes) == 0 {
		n = 0
	}
	g.maybeEmptyBodyStart(hasOpts || n > 0)
	if hasOpts {
		for _, e := range append([]optEntry{{name: []string{"deprecated"}, value: boolTok(g.r)}}, g.customOptions("s", 2)...) {
			g.optionStmt(e)
		}
	}
	for i := 0; i < n; i++ {
		g.t("rpc", g.id("R"), "(")
		if g.r.Chance(1, 3) {
			g.t("stream")
		}
		g.qualified(hx.Pick(g.r, g.msgTypes))
		g.t(")", "returns", "(")
		if g.r.Chance(1, 3) {
			g.t("stream")
		}
		g.qualified(hx.Pick(g.r, g.msgTypes))
		g.t(")")
		switch g.r.Intn(3) {
		case 0:
			g.t(";")
		case 1:
			g.t("{", "}")
		default:
			g.t("{")
			ents := g.customOptions("mt", 2)
			if g.r.Bool() || len(ents) == 0 {
				ents = append(ents, optEntry{name: []string{"idempotency_level"}, value: []string{hx.Pick(g.r, []string{"NO_SIDE_EFFECTS", "IDEMPOTENT"})}})
			}
			if g.r.Bool() {
				ents = append(ents, optEntry{name: []string{"deprecated"}, value: boolTok(g.r)})
			}
			g.maybeEmptyBodyStart(true)
			for _, e := range ents {
				g.optionStmt(e)
			}
			g.t("}")
		}
		g.maybeEmpty()
	}
	g.t("}")
	g.maybeEmpty()
}

// ---------------------------------------------------------------- file

type importSpec struct {
	path string
	kind string // "", public, weak
}

func (g *gen) importStmt(s importSpec) {
	g.t("import")
	if s.kind != "" {
		g.t(s.kind)
	}
	g.str(s.path, 3)
	g.t(";")
	g.maybeEmpty()
}

// genProgram builds one program of the given family.
func genProgram(r *hx.Rand, family string) *program {
	g := &gen{r: r, enumFirst: map[string]string{}, extNum: 1000, on: map[string]bool{}}
	if strings.HasPrefix(family, "k:") {
		g.on[strings.TrimPrefix(family, "k:")] = true
	}
	g.optDot = r.Chance(1, 3)
	g.syntax = hx.Pick(r, []string{"proto2", "proto3", "editions", "proto2", "proto3", "none"})
	g.wild = hx.Pick(r, []int{0, 1, 2, 2})
	if family == "witness" {
		g.wild = hx.Pick(r, []int{0, 0, 1, 2})
	}
	if family == "k:lc-blockend" || family == "k:empty-comment" || family == "k:adjacent-comment" {
		g.wild = 2
	}
	switch g.syntax {
	case "none":
		g.syntax = "proto2"
	case "editions":
		g.t("edition", "=")
		g.str("2023", 3)
		g.t(";")
	default:
		g.t("syntax", "=")
		g.str(g.syntax, 3)
		g.t(";")
	}
	if g.on["empty-first"] || r.Chance(1, 12) {
		g.t(emptyMark)
	}
	if r.Chance(4, 5) {
		g.pkg = hx.Pick(r, []string{"t", "t.v1", "acme.weather.v1", "t_x.y2"})
	}
	g.useOpts = r.Chance(4, 5) || family == "witness"

	// imports
	var imports []importSpec
	if g.useOpts {
		imports = append(imports, importSpec{path: "c07/opts.proto"})
	}
	if r.Chance(1, 2) {
		imports = append(imports, importSpec{path: "c07/dep_a.proto", kind: hx.Pick(r, []string{"", "", "public"})})
		g.msgTypes = append(g.msgTypes, "c07.a.A1")
		g.enumTypes = append(g.enumTypes, "c07.a.AE")
		g.enumFirst["c07.a.AE"] = "AE0"
		if g.syntax != "proto3" {
			g.extendable = append(g.extendable, "c07.a.A1")
		}
	}
	if r.Chance(1, 2) {
		imports = append(imports, importSpec{path: "c07/dep_b.proto", kind: hx.Pick(r, []string{"", "", "public"})})
		g.msgTypes = append(g.msgTypes, "c07.b.B1")
		g.enumTypes = append(g.enumTypes, "c07.b.BE")
		g.enumFirst["c07.b.BE"] = "BE0"
	}
	if r.Chance(1, 3) {
		imports = append(imports, importSpec{path: "c07/dep_p.proto"})
		g.msgTypes = append(g.msgTypes, "c07.p.P1", "c07.c.C1")
	}
	if r.Chance(1, 4) {
		imports = append(imports, importSpec{path: "c07/dep_w.proto", kind: hx.Pick(r, []string{"weak", ""})})
	}
	if r.Chance(1, 4) {
		imports = append(imports, importSpec{path: "google/protobuf/any.proto"})
		g.msgTypes = append(g.msgTypes, "google.protobuf.Any")
	}
	if r.Chance(1, 6) {
		imports = append(imports, importSpec{path: "google/protobuf/timestamp.proto", kind: hx.Pick(r, []string{"", "public"})})
		g.msgTypes = append(g.msgTypes, "google.protobuf.Timestamp")
	}
	if g.syntax == "proto3" {
		// proto3 files may not use proto2 enums as field types
		var keep []string
		for _, e := range g.enumTypes {
			if e != "c07.a.AE" {
				keep = append(keep, e)
			}
		}
		g.enumTypes = keep
	}
	if family == "dupimports" && len(imports) > 0 {
		n := 1 + r.Intn(3)
		for i := 0; i < n; i++ {
			d := hx.Pick(r, imports)
			if r.Chance(1, 4) && d.path != "c07/opts.proto" {
				d.kind = hx.Pick(r, []string{"", "public", "weak"})
			}
			imports = append(imports, d)
		}
	}
	hx.Shuffle(r, imports)

	// file options
	var fopts []optEntry
	fopts = append(fopts, g.builtinFileOptions()...)
	nCustom := 4
	if family == "witness" {
		nCustom = 6
	}
	fopts = append(fopts, g.customOptions("f", nCustom)...)
	if family == "witness" {
		// many options including several values of one repeated custom option: sort.Slice
		// switches from insertion sort to pdqsort above 12 elements
		k := 3 + r.Intn(12)
		for i := 0; i < k; i++ {
			fopts = append(fopts, optEntry{name: g.extName("f", "rep"), value: []string{strconv.Itoa(1000 + i)}})
		}
		k2 := r.Intn(8)
		for i := 0; i < k2; i++ {
			fopts = append(fopts, optEntry{name: g.extName("f", "reps"), value: g.capture(func() { g.str("v"+strconv.Itoa(i), 0) })})
		}
		for len(fopts) < 14 {
			fopts = append(fopts, optEntry{name: g.extName("f", "rep"), value: []string{strconv.Itoa(2000 + len(fopts))}})
		}
	}
	hx.Shuffle(r, fopts)

	// header statements and type declarations, then interleave
	type chunk struct {
		toks   []string
		header bool
	}
	var header []chunk
	if g.pkg != "" {
		header = append(header, chunk{g.capture(func() {
			g.t("package")
			parts := strings.Split(g.pkg, ".")
			for i, p := range parts {
				if i > 0 {
					g.t(".")
				}
				g.t(p)
			}
			g.t(";")
			g.maybeEmpty()
		}), true})
	}
	for _, im := range imports {
		im := im
		header = append(header, chunk{g.capture(func() { g.importStmt(im) }), true})
	}
	for _, e := range fopts {
		e := e
		header = append(header, chunk{g.capture(func() { g.optionStmt(e) }), true})
	}
	if r.Chance(1, 2) {
		// keep "package, imports, options" order sometimes; otherwise shuffle the header
	} else {
		hx.Shuffle(r, header)
	}
	var types []chunk
	nTypes := r.Intn(6)
	if family == "witness" {
		nTypes = r.Intn(2)
	}
	for i := 0; i < nTypes; i++ {
		types = append(types, chunk{g.capture(func() {
			switch k := r.Intn(10); {
			case k < 5:
				g.message("", 0)
			case k < 7:
				g.enum("")
			case k < 8 && len(g.extendable) > 0:
				g.extend()
			case k < 9:
				g.service()
			default:
				g.message("", 0)
			}
		}), false})
	}
	// interleave: usually header first; sometimes header statements land between types
	all := append([]chunk{}, header...)
	if r.Chance(1, 3) && len(types) > 0 {
		all = nil
		hi := 0
		for _, ty := range types {
			for hi < len(header) && r.Chance(2, 3) {
				all = append(all, header[hi])
				hi++
			}
			all = append(all, ty)
		}
		all = append(all, header[hi:]...)
	} else {
		all = append(all, types...)
	}
	for _, c := range all {
		g.t(c.toks...)
	}
	p := &program{toks: g.toks, family: family, syntax: g.syntax}
	p.empty = make([]bool, len(p.toks))
	for i, t := range p.toks {
		if t == emptyMark {
			p.toks[i] = ";"
			p.empty[i] = true
		}
	}
	p.gaps = make([]string, len(p.toks)+1)
	for i := range p.gaps {
		prev, next := "", ""
		if i > 0 {
			prev = p.toks[i-1]
		}
		if i < len(p.toks) {
			next = p.toks[i]
		}
		nearEmpty := (i > 0 && p.empty[i-1]) || (i < len(p.toks) && p.empty[i])
		p.gaps[i] = g.gap(prev, next, nearEmpty && !g.on["empty-comment"])
	}
	return p
}

// ---------------------------------------------------------------- gaps

var wsPieces = []string{" ", " ", " ", "  ", "\t", "\n", "\n", "\n\n", "\n  ", "\r\n", " \n\n\n ", "\n\t", "\f", "\v"}

func (g *gen) comment() (text string, needsNewline bool) {
	g.cid++
	id := fmt.Sprintf("c%d", g.cid)
	k := g.r.Intn(14)
	if g.on["lc-blockend"] && g.r.Chance(1, 3) {
		k = 7
	}
	switch k {
	case 0:
		return "//" + id, true
	case 1:
		return "// " + id + " with words  and   spaces ", true
	case 2:
		return "/*" + id + "*/", false
	case 3:
		return "/* " + id + " */", false
	case 4:
		return "/** " + id + " doc */", false
	case 5:
		return "/*\n * " + id + " line1\n * line2 " + id + "\n */", false
	case 6:
		return "/* " + id + "\n   indented body " + id + "\n\ttab line\n*/", false
	case 7:
		return "// " + id + " has */ inside", true
	case 8:
		return "// " + id + " has /* inside", true
	case 9:
		return "/* " + id + " has // inside */", false
	case 10:
		return "/// " + id + " triple", true
	case 11:
		return "/* " + id + " \"quote' */", false
	case 12:
		return "//  \t" + id + "\t ", true
	default:
		return "// " + id, true
	}
}

func (g *gen) gap(prev, next string, noComments bool) string {
	must := needSep(prev, next)
	var sb strings.Builder
	wild := g.wild
	if noComments && wild > 0 {
		wild = 0
		if g.wild == 2 && !must && g.r.Bool() {
			return ""
		}
	}
	switch wild {
	case 0:
		// conventional layout
		switch {
		case prev == "":
		case next == "":
			sb.WriteString("\n")
		case prev == ";" || prev == "{" || prev == "}":
			sb.WriteString("\n")
			if g.r.Chance(1, 6) {
				sb.WriteString("\n")
			}
		case must || (next != ";" && next != "," && next != "." && prev != "." && next != ")" && prev != "("):
			sb.WriteString(" ")
		}
	case 1:
		// comments only where people write them: own line before a statement, end of line
		switch {
		case prev == "":
			if g.r.Chance(1, 3) {
				c, _ := g.comment()
				sb.WriteString(c + "\n")
				if g.r.Bool() {
					sb.WriteString("\n")
				}
			}
		case next == "":
			sb.WriteString("\n")
			if g.r.Chance(1, 4) {
				c, _ := g.comment()
				sb.WriteString(c + "\n")
			}
		case prev == ";" || prev == "{" || prev == "}":
			if g.r.Chance(1, 5) {
				c, _ := g.comment()
				sb.WriteString(" " + c)
			}
			sb.WriteString("\n")
			if g.r.Chance(1, 6) {
				sb.WriteString("\n")
			}
			if g.r.Chance(1, 5) {
				c, _ := g.comment()
				sb.WriteString("  " + c + "\n")
				if g.r.Chance(1, 5) {
					sb.WriteString("\n")
				}
			}
		case must || (next != ";" && next != "," && next != "." && prev != "."):
			sb.WriteString(" ")
		}
	default:
		n := g.r.Intn(3)
		pendingNL := false
		for i := 0; i < n; i++ {
			if g.r.Chance(1, 3) {
				if pendingNL {
					sb.WriteString("\n")
					pendingNL = false
				}
				c, nl := g.comment()
				if (sb.Len() == 0 && prev != "" || strings.HasSuffix(sb.String(), "*/")) && (!g.on["adjacent-comment"] || prev == "/") {
					// a comment glued to the preceding token is a known-defect construct
					sb.WriteString(" ")
				}
				sb.WriteString(c)
				pendingNL = nl
			} else {
				w := hx.Pick(g.r, wsPieces)
				if pendingNL && !strings.Contains(w, "\n") {
					sb.WriteString("\n")
				}
				pendingNL = false
				sb.WriteString(w)
			}
		}
		if pendingNL {
			sb.WriteString("\n")
		}
		if must && sb.Len() == 0 {
			sb.WriteString(" ")
		}
	}
	s := sb.String()
	if must && s == "" {
		s = " "
	}
	return s
}
