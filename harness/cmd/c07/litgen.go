package main

import (
	"fmt"
	"os"
	"strings"

	"github.com/bufbuild/verifharness/internal/hx"
)

// Family "lit": COMMENTS ON THE SEPARATORS AND BRACKETS OF OPTION LITERALS, generated
// systematically (stratified), not at random.
//
// A cell is
//
//	value kind   x  separator  x  gap of the focus field  x  comment layout
//
// where the FOCUS FIELD `name : value sep` is one field of a message literal that is (part of)
// an option value, "gap" ranges over EVERY gap between two tokens of the focus field, from the
// gap in front of its name to the gap behind its separator (so: before / after the value, before /
// after every bracket of a composite value, between the elements, before / after the separator),
// and "layout" is how the comment sits in the gap (same line, end of line, own line, detached;
// block or line comment).  One comment per program (a second one in the "pair" variants), so the
// formatter's comment-free fast paths (one-line arrays / compact literals) are reachable and the
// oracle's verdict is about exactly that comment.
//
// The remaining dimensions rotate deterministically with the seed (every value of each is used
// about equally often and every seed shifts the assignment): where the option sits (file /
// message / enum / service / method / oneof option statement, field option `[...]` alone or
// followed by a second compact option, enum value option, extension range option), the nesting
// depth 1-3 of the literal that holds the focus field and the kind of the wrappers around it
// (`sub {`, `sub: <`, `subs: [ { } ]`, `[c07.opts.cmsg] {`), whether the focus field is the first /
// the last field of its literal, and whether the literal is written on one line or one field per line.
//
// quick tier: every (kind, separator, gap) with two of the three same-line layouts and one own-line
// layout chosen by the seed (+ a pair variant for a quarter of them); thorough tier: the full cross
// product kind x separator x gap x layout x nesting depth and a pair variant for every cell.

type litKind struct {
	name  string
	field string   // Cfg field
	value []string // value tokens
	msg   bool     // message-valued: the ':' is optional
}

var litKinds = []litKind{
	{"scalar", "a", []string{"5"}, false},
	{"signed", "d", []string{"-", "1.5"}, false},
	{"string", "s", []string{`"x"`}, false},
	{"concat", "s", []string{`"x"`, `'y'`}, false},
	{"ident", "k", []string{"K1"}, false},
	{"array1", "r", []string{"[", "1", "]"}, false},
	{"array1-string", "rs", []string{"[", `"a"`, "]"}, false},
	{"array1-concat", "rs", []string{"[", `"a"`, `"b"`, "]"}, false},
	{"array1-signed", "rd", []string{"[", "-", "1.5", "]"}, false},
	{"arrayN", "r", []string{"[", "1", ",", "2", ",", "3", "]"}, false},
	{"array1-msg", "subs", []string{"[", "{", "a", ":", "1", "}", "]"}, true},
	{"arrayN-msg", "subs", []string{"[", "{", "a", ":", "1", "}", ",", "<", "a", ":", "2", ">", "]"}, true},
	{"msg-brace", "sub", []string{"{", "a", ":", "1", "}"}, true},
	{"msg-angle", "sub", []string{"<", "a", ":", "1", ",", "b", ":", "true", ">"}, true},
	{"array0", "r", []string{"[", "]"}, false},
	{"msg0-brace", "sub", []string{"{", "}"}, true},
	{"msg0-angle", "sub", []string{"<", ">"}, true},
}

var litSeps = []string{",", ";", ""}

// layouts of one comment in a gap; %s = the comment id
type litLayout struct {
	name    string
	sameRow bool // the comment starts on the line of the previous token
	format  string
}

var litLayouts = []litLayout{
	{"inline-block", true, " /* %s */ "},
	{"eol-line", true, " // %s\n"},
	{"eol-block", true, " /* %s */\n"},
	{"own-line-block-attached", false, "\n/* %s */ "},
	{"own-line-line", false, "\n// %s\n"},
	{"detached-line", false, "\n\n// %s\n\n"},
	{"own-line-multiline-block", false, "\n/*\n * %s line1\n * %s line2\n */\n"},
}

var litSites = []string{"file", "message", "field", "field+next", "enum-value", "ext-range", "enum", "service", "method", "oneof", "field-first-of-two"}

type litCell struct {
	kind, sep, gap, layout int
	// rotating dimensions
	site, depth, wrap   int
	first, last, multi  bool
	colon               bool // message-valued focus field written with ':'
	pairGap, pairLayout int  // second comment (-1 = none); gap index into the WHOLE literal
}

func (c litCell) String() string {
	sep := litSeps[c.sep]
	if sep == "" {
		sep = "none"
	}
	return fmt.Sprintf("kind=%s sep=%s gap=%d layout=%s site=%s depth=%d wrap=%d first=%v last=%v multi=%v pair=%d/%d",
		litKinds[c.kind].name, sep, c.gap, litLayouts[c.layout].name, litSites[c.site], c.depth, c.wrap, c.first, c.last, c.multi, c.pairGap, c.pairLayout)
}

// focusTokens: name [:] value [sep]
func (c litCell) focusTokens() []string {
	k := litKinds[c.kind]
	toks := []string{k.field}
	if !k.msg || c.colon {
		toks = append(toks, ":")
	}
	toks = append(toks, k.value...)
	if litSeps[c.sep] != "" {
		toks = append(toks, litSeps[c.sep])
	}
	return toks
}

// litBuilder collects tokens and remembers which gaps belong to the focus field / the literal.
type litBuilder struct {
	toks       []string
	gapText    map[int]string // explicit gap texts (index = token the gap precedes)
	litStart   int            // first token of the outermost option literal
	litEnd     int            // one past its last token
	focusStart int
	focusEnd   int // one past the last token of the focus field; gap[focusEnd] is "behind the separator"
	fieldStart []int
}

func (b *litBuilder) t(ss ...string) { b.toks = append(b.toks, ss...) }

// buildLit renders the cell as a program.
func buildLit(c litCell, r *hx.Rand) *program {
	b := &litBuilder{gapText: map[int]string{}}
	b.t("syntax", "=", `"proto2"`, ";")
	b.t("package", "t", ";")
	b.t("import", `"c07/opts.proto"`, ";")
	optName := func(prefix string) []string {
		return []string{"(", "c07", ".", "opts", ".", prefix + "_msg", ")"}
	}
	literal := func() {
		b.litStart = len(b.toks)
		b.t("{")
		// wrappers (closers is a stack: pushed in opening order, popped in reverse)
		var closers []string
		for d := 1; d < c.depth; d++ {
			switch (c.wrap + d) % 5 {
			case 0:
				b.t("sub", "{")
				closers = append(closers, "}")
			case 1:
				b.t("sub", ":", "<")
				closers = append(closers, ">")
			case 2:
				b.t("subs", ":", "[", "{")
				closers = append(closers, "]", "}")
			case 3:
				b.t("[", "c07", ".", "opts", ".", "cmsg", "]", "{")
				closers = append(closers, "}")
			default:
				b.t("sub", ":", "{")
				closers = append(closers, "}")
			}
		}
		if !c.first {
			b.fieldStart = append(b.fieldStart, len(b.toks))
			b.t("b", ":", "true")
			if c.wrap%3 == 0 {
				b.t(",")
			}
		}
		b.fieldStart = append(b.fieldStart, len(b.toks))
		b.focusStart = len(b.toks)
		b.t(c.focusTokens()...)
		b.focusEnd = len(b.toks)
		if !c.last {
			b.fieldStart = append(b.fieldStart, len(b.toks))
			b.t("u64", ":", "7")
			if c.wrap%2 == 1 {
				b.t(";")
				b.fieldStart = append(b.fieldStart, len(b.toks))
				b.t("neg", ":", "3")
			}
		}
		for i := len(closers) - 1; i >= 0; i-- {
			b.t(closers[i])
		}
		if len(closers) > 0 && c.wrap%4 == 2 {
			// the outermost wrapper is followed by one more field of the option's own literal
			b.fieldStart = append(b.fieldStart, len(b.toks))
			b.t("i64", ":", "9")
		}
		b.t("}")
		b.litEnd = len(b.toks)
	}
	switch litSites[c.site] {
	case "file":
		b.t("option")
		b.t(optName("f")...)
		b.t("=")
		literal()
		b.t(";")
		b.t("message", "M", "{", "optional", "int32", "f1", "=", "1", ";", "}")
	case "message":
		b.t("message", "M", "{", "optional", "int32", "f1", "=", "1", ";", "option")
		b.t(optName("m")...)
		b.t("=")
		literal()
		b.t(";", "}")
	case "field", "field+next", "field-first-of-two":
		b.t("message", "M", "{", "optional", "int32", "f1", "=", "1", "[")
		if litSites[c.site] == "field-first-of-two" {
			b.t("deprecated", "=", "true", ",")
		}
		b.t(optName("fld")...)
		b.t("=")
		literal()
		if litSites[c.site] == "field+next" {
			b.t(",", "deprecated", "=", "true")
		}
		b.t("]", ";", "}")
	case "enum-value":
		b.t("enum", "E", "{", "E0", "=", "0", "[")
		b.t(optName("ev")...)
		b.t("=")
		literal()
		b.t("]", ";", "}")
	case "ext-range":
		b.t("message", "M", "{", "extensions", "100", "to", "200", "[")
		b.t(optName("x")...)
		b.t("=")
		literal()
		b.t("]", ";", "}")
	case "enum":
		b.t("enum", "E", "{", "option")
		b.t(optName("e")...)
		b.t("=")
		literal()
		b.t(";", "E0", "=", "0", ";", "}")
	case "service":
		b.t("message", "M", "{", "}", "service", "S", "{", "option")
		b.t(optName("s")...)
		b.t("=")
		literal()
		b.t(";", "}")
	case "method":
		b.t("message", "M", "{", "}", "service", "S", "{", "rpc", "R", "(", "M", ")", "returns", "(", "M", ")", "{", "option")
		b.t(optName("mt")...)
		b.t("=")
		literal()
		b.t(";", "}", "}")
	case "oneof":
		b.t("message", "M", "{", "oneof", "o", "{", "option")
		b.t(optName("o")...)
		b.t("=")
		literal()
		b.t(";", "int32", "f1", "=", "1", ";", "}", "}")
	}

	p := &program{toks: b.toks, family: "lit", syntax: "proto2"}
	p.empty = make([]bool, len(p.toks))
	p.gaps = make([]string, len(p.toks)+1)
	conv := &gen{r: r, wild: 0}
	isFieldStart := map[int]bool{}
	for _, i := range b.fieldStart {
		isFieldStart[i] = true
	}
	for i := range p.gaps {
		prev, next := "", ""
		if i > 0 {
			prev = p.toks[i-1]
		}
		if i < len(p.toks) {
			next = p.toks[i]
		}
		inLit := i > b.litStart && i < b.litEnd
		switch {
		case inLit && c.multi && (isFieldStart[i] || i == b.litEnd-1):
			p.gaps[i] = "\n  "
		case inLit:
			// one line: a space between tokens, none in front of separators
			if next == "," || next == ";" || next == ":" || (prev == "[" && next != "{" && next != "]") || prev == "." || next == "." {
				p.gaps[i] = ""
			} else {
				p.gaps[i] = " "
			}
			if needSep(prev, next) && p.gaps[i] == "" {
				p.gaps[i] = " "
			}
		default:
			p.gaps[i] = conv.gap(prev, next, true)
		}
	}
	cid := 0
	put := func(gapIdx, layout int) {
		cid++
		id := fmt.Sprintf("c%d", cid)
		text := strings.ReplaceAll(litLayouts[layout].format, "%s", id)
		if strings.HasPrefix(litLayouts[layout].format, "\n/*\n") {
			text = fmt.Sprintf(litLayouts[layout].format, id, id)
		}
		old := p.gaps[gapIdx]
		if strings.Contains(old, "\n") && !strings.HasSuffix(text, "\n") {
			// the gap had a line break: keep it behind an inline comment
			text = strings.TrimRight(text, " ") + old
		}
		p.gaps[gapIdx] = text
	}
	put(b.focusStart+c.gap, c.layout)
	if c.pairGap >= 0 {
		g := b.litStart + 1 + c.pairGap%(b.litEnd-b.litStart)
		if g != b.focusStart+c.gap {
			put(g, c.pairLayout)
		}
	}
	return p
}

// litCells enumerates the cells of a run.  thorough: the whole cross product (kind x separator x
// gap x layout) plus a pair variant of each; quick: every (kind, separator, gap) with one same-line
// and one own-line layout picked by the seed, and a pair variant for a quarter of them.
func litCells(seed uint64, thorough bool) []litCell {
	var cells []litCell
	h := hx.NewRand(seed ^ 0x6c6974)
	n := 0
	for k := range litKinds {
		for s := range litSeps {
			for _, colon := range []bool{true, false} {
				if !colon && !litKinds[k].msg {
					continue
				}
				if !colon && !thorough && (k+s+int(seed))%2 == 0 {
					continue // quick: the colon-less spelling for half of the message-valued cells
				}
				base := litCell{kind: k, sep: s, colon: colon, pairGap: -1}
				ngaps := len(base.focusTokens()) + 1
				for g := 0; g < ngaps; g++ {
					var layouts []int
					if thorough {
						for l := range litLayouts {
							layouts = append(layouts, l)
						}
					} else {
						var same, own []int
						for l, lay := range litLayouts {
							if lay.sameRow {
								same = append(same, l)
							} else {
								own = append(own, l)
							}
						}
						// same-line layouts decide leading/trailing attribution: take two of the three
						a := h.Intn(len(same))
						layouts = append(layouts, same[a], same[(a+1)%len(same)], own[h.Intn(len(own))])
					}
					for _, l := range layouts {
						c := base
						c.gap, c.layout = g, l
						// rotating dimensions: a different assignment for every cell and seed
						n++
						x := uint64(n) + seed*7919
						c.site = int(x % uint64(len(litSites)))
						c.depth = 1 + int((x/11)%3)
						c.wrap = int((x / 3) % 60)
						c.first = (x/2)%2 == 0
						c.last = (x/5)%2 == 0
						c.multi = (x/7)%3 == 0
						cells = append(cells, c)
						if thorough {
							// thorough: the cell at the two other nesting depths as well
							for dd := 1; dd <= 2; dd++ {
								dc := c
								dc.depth = 1 + (c.depth-1+dd)%3
								dc.site = int((x + uint64(3*dd)) % uint64(len(litSites)))
								dc.wrap = int((x/3 + uint64(7*dd)) % 60)
								dc.last = (x/5+uint64(dd))%2 == 0
								cells = append(cells, dc)
							}
						}
						if thorough || h.Chance(1, 4) {
							pc := c
							pc.pairGap = h.Intn(64)
							pc.pairLayout = h.Intn(len(litLayouts))
							pc.site = int((x + 5) % uint64(len(litSites)))
							pc.depth = 1 + int((x/11+1)%3)
							pc.last = !c.last
							cells = append(cells, pc)
						}
					}
				}
			}
		}
	}
	return cells
}

// runLit runs the stratified option-literal family.
func runLit(run *hx.Run, seen map[string]bool, only int, print bool) {
	cells := litCells(run.Seed, run.Thorough())
	r := hx.NewRand(run.Seed ^ 0x11711)
	for i, c := range cells {
		if only >= 0 && i != only {
			continue
		}
		p := buildLit(c, r.Fork(uint64(i)))
		src := p.render()
		v, _, gerr := judge(src)
		if print {
			fmt.Printf("cell %d: %s\n%s\n==== formatted\n%s\n==== generr=%v class=%q what=%s\n", i, c, src, v.out, gerr, v.class, v.what)
		}
		if gerr != nil {
			run.Count("lit:unparsable")
			if os.Getenv("C07_DEBUG") != "" {
				fmt.Printf("lit cell %d (%s) does not parse/link: %v\n%s\n----\n", i, c, gerr, src)
			}
			continue
		}
		run.Count("family:lit")
		run.Count("lit:kind:" + litKinds[c.kind].name)
		run.Count("lit:sep:" + map[string]string{",": "comma", ";": "semicolon", "": "none"}[litSeps[c.sep]])
		run.Count("lit:layout:" + litLayouts[c.layout].name)
		run.Count("lit:site:" + litSites[c.site])
		run.Count(fmt.Sprintf("lit:depth:%d", c.depth))
		switch {
		case c.gap == 0:
			run.Count("lit:gap:before-name")
		case c.gap == len(c.focusTokens()):
			run.Count("lit:gap:behind-last-token-of-field")
		case litSeps[c.sep] != "" && c.gap == len(c.focusTokens())-1:
			run.Count("lit:gap:between-value-and-separator")
		default:
			run.Count("lit:gap:inside-field")
		}
		if c.pairGap >= 0 {
			run.Count("lit:pair")
		}
		if v.class != "" {
			reportFailures(run, i, p, v, seen, 0)
			run.Case("lexonly\t"+hx.Enc(src), lexFacts(src), true)
		} else {
			run.Case("fmt\t"+hx.Enc(src)+"\t"+hx.Enc(v.out)+"\t"+hx.Enc(v.out2), "valid "+facts(src, v.out), src != v.out)
		}
		if i == 17 {
			run.Sample(map[string]any{"family": "lit", "cell": c.String(), "source": src, "formatted": v.out, "class": v.class})
		}
	}
}
