package main

import "strings"

// A small, independent proto scanner used by the Go-side oracle (NOT the Lean model and NOT
// protocompile's lexer): it only separates comments / string literals / everything else, which
// is all the oracle needs to list the comments of a text.

type piece struct {
	kind byte // 'c' comment, 's' string literal, 'w' whitespace, 'o' other run
	text string
}

func scan(src string) []piece {
	var out []piece
	i, n := 0, len(src)
	for i < n {
		c := src[i]
		switch {
		case c == '/' && i+1 < n && src[i+1] == '/':
			j := strings.IndexByte(src[i:], '\n')
			if j < 0 {
				j = n - i
			}
			out = append(out, piece{'c', src[i : i+j]})
			i += j
		case c == '/' && i+1 < n && src[i+1] == '*':
			j := strings.Index(src[i+2:], "*/")
			if j < 0 {
				out = append(out, piece{'c', src[i:]})
				i = n
			} else {
				out = append(out, piece{'c', src[i : i+2+j+2]})
				i += 2 + j + 2
			}
		case c == '"' || c == '\'':
			j := i + 1
			for j < n && src[j] != c && src[j] != '\n' {
				if src[j] == '\\' && j+1 < n {
					j++
				}
				j++
			}
			if j < n {
				j++
			}
			out = append(out, piece{'s', src[i:j]})
			i = j
		case strings.IndexByte(" \t\n\r\f\v", c) >= 0:
			j := i
			for j < n && strings.IndexByte(" \t\n\r\f\v", src[j]) >= 0 {
				j++
			}
			out = append(out, piece{'w', src[i:j]})
			i = j
		default:
			j := i + 1
			for j < n && strings.IndexByte(" \t\n\r\f\v\"'/", src[j]) < 0 {
				j++
			}
			out = append(out, piece{'o', src[i:j]})
			i = j
		}
	}
	return out
}

// commentKey is the content of a comment up to the whitespace / comment-style changes the
// formatter documents (// x  <->  /* x */, re-indentation of block comment lines): the
// whitespace-separated words of the text between the comment markers.
func commentKey(raw string) string {
	body := raw
	if strings.HasPrefix(body, "//") {
		body = body[2:]
	} else {
		body = strings.TrimPrefix(body, "/*")
		body = strings.TrimSuffix(body, "*/")
	}
	return strings.Join(strings.Fields(body), " ")
}

func commentKeys(src string) []string {
	var ks []string
	for _, p := range scan(src) {
		if p.kind == 'c' {
			ks = append(ks, commentKey(p.text))
		}
	}
	return ks
}
