// Command c07 is the translation-validation + oracle harness for property C07
// ("formatting preserves meaning and comments and is idempotent").
//
// A grammar-based generator (gen.go) writes syntactically valid proto2/proto3/editions files:
// arbitrary whitespace, // and /* */ comments in every token gap, empty statements, string
// escapes and adjacent-string concatenation, all numeric literal forms, message-literal and
// array option values in both bracket styles with optional separators, groups, maps,
// extensions, nested declarations, duplicate and unsorted imports and options including
// repeated custom options (the option definitions live in generated support files so that
// everything links).  Every program goes through the REAL formatter exactly as
// bufformat.FormatBucket does it (protocompile parser.Parse -> bufformat.FormatFileNode).
//
// Protocol line (for the Lean checker BufModel.Format.validFormat / isFormatted):
//
//	fmt <hex input> <hex output> <hex format(output)>  ->  valid <facts>   |   invalid:<clause>
//
// The Lean driver answers "valid" iff validFormat(input, output) (the decorated significant-token
// stream of the output -- tokens with the comments protocompile attributes to them -- is the one
// of the input after the documented rewrites, statements hoisted/sorted/elided as documented),
// isFormatted(output) (token-level and layout-level normal form) and format(output) == output.
// The facts on the implementation side are read off protocompile's AST of the input and of the
// output (significant-token counts, comments, protocompile's attribution of every comment to a token
// as leading/trailing, removed empty statements / message literal separators, converted angle brackets,
// inserted colons, the import and option order the formatter produced); the Lean side derives
// the same facts from its lexer, comment attribution and header canonicalisation model applied
// to the input alone.
//
// Oracle (oracle.go, implementation only): the output parses; input and output compile to the
// same FileDescriptorProto modulo source info and import order; every comment survives and
// stays attached to the same declaration; format(format(x)) == format(x).
//
// Two further families are generated SYSTEMATICALLY rather than at random:
//   - litgen.go, family "lit": one comment on every separator / bracket / value of an option
//     literal (value kind x separator x gap x comment layout, rotating over nesting depth and
//     the kind of declaration the option sits on);
//   - degen.go, family "degenerate": empty / white-space-only / COMMENT-ONLY / one-statement files,
//     through bufformat.FormatFileNode, bufformat.FormatBucket and the CLI (`buf format`, -w, -d,
//     -o, --exit-code; the real root command run in process).
//
// A failing program is classified completely (every missing comment on its own) and its RESIDUAL
// (the program without what explains the failure) is judged again, so a recorded finding never
// hides another failure of the same program (reportFailures / classifyAll).
package main

import (
	"flag"
	"fmt"
	"os"
	"sort"
	"strings"

	"github.com/bufbuild/protocompile/ast"
	"github.com/bufbuild/verifharness/internal/hx"
)

var families = []string{"general", "general", "general", "witness", "dupimports", "general", "header", "general",
	"k:lc-blockend", "k:opt-spelling", "k:empty-comment", "k:adjacent-comment", "k:empty-first", "k:empty-body"}

// lexFacts: the input-only part of facts.
func lexFacts(src string) string {
	f := facts(src, src)
	// sig=a/b com=.. attr=.. empties=.. seps=.. angles=.. colons=.. imports=.. opts=..
	parts := strings.Fields(f)
	if len(parts) < 7 {
		return f
	}
	parts[0] = strings.SplitN(parts[0], "/", 2)[0]
	return strings.Join(parts[:7], " ")
}

// facts computes the implementation-side canonical facts from the ASTs.
func facts(src, out string) string {
	in, err := parse(src)
	if err != nil {
		return "parse-error"
	}
	on, err := parse(out)
	if err != nil {
		return "output-parse-error"
	}
	count := func(f *ast.FileNode) (toks, comments int) {
		seq := f.Items()
		for it, ok := seq.First(); ok; it, ok = seq.Next(it) {
			tok, c := f.GetItem(it)
			if c.IsValid() {
				comments++
			} else if tok != f.EOF.Token() {
				toks++
			}
		}
		return
	}
	nIn, cIn := count(in)
	nOut, _ := count(on)
	// the comment attribution of protocompile, per significant token (EOF included): index:leading:trailing
	// for every token that owns a comment -- ties the Lean model's `decorate` on BOTH texts
	attr := func(f *ast.FileNode) string {
		var parts []string
		i := 0
		seq := f.Items()
		for it, ok := seq.First(); ok; it, ok = seq.Next(it) {
			tok, c := f.GetItem(it)
			if c.IsValid() {
				continue
			}
			info := f.TokenInfo(tok)
			if l, t := info.LeadingComments().Len(), info.TrailingComments().Len(); l+t > 0 {
				parts = append(parts, fmt.Sprintf("%d:%d:%d", i, l, t))
			}
			i++
		}
		if len(parts) == 0 {
			return "-"
		}
		return strings.Join(parts, ",")
	}
	empties, seps, angles, colons := 0, 0, 0, 0
	_ = ast.Walk(in, &ast.SimpleVisitor{
		DoVisitEmptyDeclNode: func(*ast.EmptyDeclNode) error { empties++; return nil },
		DoVisitMessageLiteralNode: func(m *ast.MessageLiteralNode) error {
			for _, s := range m.Seps {
				if s != nil {
					seps++
				}
			}
			if m.Open.Rune == '<' {
				angles += 2
			}
			return nil
		},
		DoVisitMessageFieldNode: func(m *ast.MessageFieldNode) error {
			if m.Sep == nil {
				colons++
			}
			return nil
		},
	})
	var imps, opts []string
	for _, d := range on.Decls {
		switch v := d.(type) {
		case *ast.ImportNode:
			k := "n"
			if v.Public != nil {
				k = "p"
			} else if v.Weak != nil {
				k = "w"
			}
			imps = append(imps, k+":"+hx.Enc(v.Name.AsString()))
		case *ast.OptionNode:
			// the printed option name = the texts of its tokens (stringForOptionName)
			var sb strings.Builder
			_ = ast.Walk(v.Name, &ast.SimpleVisitor{DoVisitTerminalNode: func(t ast.TerminalNode) error {
				sb.WriteString(on.NodeInfo(t).RawText())
				return nil
			}})
			opts = append(opts, hx.Enc(sb.String()))
		}
	}
	return fmt.Sprintf("sig=%d/%d com=%d attr=%s empties=%d seps=%d angles=%d colons=%d oattr=%s imports=%s opts=%s",
		nIn, nOut, cIn, attr(in), empties, seps, angles, colons, attr(on), strings.Join(imps, ","), strings.Join(opts, ","))
}

// ---------------------------------------------------------------------------------------
// shrinking

type stmtSpan struct{ start, end int }

// statements finds deletable statements in a token list: from a statement start to its
// terminating ';' at the same nesting depth, or to the '}' matching the first '{'.
func statements(toks []string) []stmtSpan {
	var out []stmtSpan
	n := len(toks)
	for i := 0; i < n; i++ {
		if i > 0 && toks[i-1] != ";" && toks[i-1] != "{" && toks[i-1] != "}" {
			continue
		}
		if toks[i] == "}" {
			continue
		}
		depth := 0
		for j := i; j < n; j++ {
			switch toks[j] {
			case "{", "[", "(":
				depth++
			case "}", "]", ")":
				depth--
			}
			if depth < 0 {
				break
			}
			if depth == 0 && (toks[j] == ";" || toks[j] == "}") {
				out = append(out, stmtSpan{i, j + 1})
				break
			}
		}
	}
	sort.Slice(out, func(a, b int) bool { return out[a].end-out[a].start > out[b].end-out[b].start })
	return out
}

func (p *program) without(s stmtSpan) *program {
	q := &program{family: p.family, syntax: p.syntax}
	q.toks = append(append([]string{}, p.toks[:s.start]...), p.toks[s.end:]...)
	q.gaps = append(append([]string{}, p.gaps[:s.start+1]...), p.gaps[s.end+1:]...)
	q.empty = append(append([]bool{}, p.empty[:s.start]...), p.empty[s.end:]...)
	return q
}

func shrink(p *program, class string, budget int) *program {
	fails := func(q *program) bool {
		budget--
		v, _, gerr := judge(q.render())
		return gerr == nil && v.class == class
	}
	for changed := true; changed && budget > 0; {
		changed = false
		for _, s := range statements(p.toks) {
			if budget <= 0 {
				break
			}
			if s.start == 0 && (p.toks[0] == "syntax" || p.toks[0] == "edition") {
				continue
			}
			q := p.without(s)
			if fails(q) {
				p = q
				changed = true
				break
			}
		}
	}
	// simplify gaps
	for i := range p.gaps {
		if budget <= 0 {
			break
		}
		prev, next := "", ""
		if i > 0 {
			prev = p.toks[i-1]
		}
		if i < len(p.toks) {
			next = p.toks[i]
		}
		for _, cand := range []string{"", " ", "\n"} {
			if cand == p.gaps[i] || (cand == "" && needSep(prev, next)) || len(cand) >= len(p.gaps[i]) {
				continue
			}
			q := &program{toks: p.toks, gaps: append([]string{}, p.gaps...), empty: p.empty, family: p.family, syntax: p.syntax}
			q.gaps[i] = cand
			if fails(q) {
				p = q
				break
			}
		}
	}
	return p
}

// ---------------------------------------------------------------------------------------

// maxResidualDepth bounds the chain program -> residual program -> ... (see classifyAll).
const maxResidualDepth = 3

// reportFailures records EVERY class of the failing verdict v of program p, then judges the
// residual program (p without the constructs that explain those classes): if that fails again,
// with whatever class, it is reported as well; if it passes, it is sent to the Lean checker as a
// case of its own.  Without this a program that trips a recorded finding would be checked for
// nothing else (about a third of the general programs do).
func reportFailures(run *hx.Run, idx int, p *program, v verdict, seen map[string]bool, depth int) {
	classes, residual := classifyAll(p, v)
	src := p.render()
	base := v.class
	tag := ""
	if depth > 0 {
		tag = fmt.Sprintf(" residual-%d", depth)
	}
	for ci, c := range classes {
		run.Count("failure:" + c)
		replay := fmt.Sprintf("build/c07 --seed %d --tier %s --only %d --out /tmp/c07-replay --print", run.Seed, run.Tier, idx)
		if p.family == "lit" || p.family == "degenerate" {
			replay = fmt.Sprintf("build/c07 --seed %d --tier %s --only-%s %d --out /tmp/c07-replay --print", run.Seed, run.Tier, p.family, idx)
		}
		if !seen[c] || (os.Getenv("C07_SHRINK_ALL") != "" && len(run.Args) == 0) {
			small, ssrc := p, src
			sv := v
			if ci == 0 && p.shrinkable() {
				small = shrink(p, base, 300)
				ssrc = small.render()
				sv, _, _ = judge(ssrc)
				if sv.class == "" || !contains(classesOf(small, sv), c) {
					// shrinking drifted to a different cause: keep the unshrunk witness
					small, ssrc, sv = p, src, v
				}
			}
			run.Fail(hx.OracleFailure{Class: c, What: fmt.Sprintf("case %d (%s%s): %s", idx, p.family, tag, sv.what),
				Input:  map[string]any{"source": ssrc, "formatted": sv.out, "original_tokens": len(p.toks), "shrunk_tokens": len(small.toks)},
				Replay: replay})
			seen[c] = true
		} else {
			run.Fail(hx.OracleFailure{Class: c, What: fmt.Sprintf("case %d (%s%s): %s", idx, p.family, tag, v.what),
				Input:  map[string]any{"source": src},
				Replay: replay})
		}
	}
	if residual == nil || depth >= maxResidualDepth {
		return
	}
	rsrc := residual.render()
	rv, _, gerr := judge(rsrc)
	if gerr != nil {
		run.Count("residual:unparsable")
		return
	}
	if rv.class == "" {
		run.Count("residual:passes")
		run.Case("fmt\t"+hx.Enc(rsrc)+"\t"+hx.Enc(rv.out)+"\t"+hx.Enc(rv.out2), "valid "+facts(rsrc, rv.out), rsrc != rv.out)
		return
	}
	run.Count("residual:fails-again")
	reportFailures(run, idx, residual, rv, seen, depth+1)
}

func classesOf(p *program, v verdict) []string {
	cs, _ := classifyAll(p, v)
	return cs
}

func contains(xs []string, x string) bool {
	for _, y := range xs {
		if y == x {
			return true
		}
	}
	return false
}

// shrinkable: statement-level shrinking only makes sense for the grammar-generated programs
// (the stratified and degenerate families are minimal by construction).
func (p *program) shrinkable() bool { return p.family != "lit" && p.family != "degenerate" }

func runCase(run *hx.Run, idx int, p *program, seen map[string]bool) {
	src := p.render()
	v, compiles, gerr := judge(src)
	if gerr != nil {
		// the generator produced a text that does not parse: not a case (kept visible)
		run.Count("gen:unparsable")
		if os.Getenv("C07_DEBUG") != "" {
			fmt.Fprintf(os.Stderr, "case %d unparsable: %v\n%s\n----\n", idx, gerr, src)
		}
		return
	}
	run.Count("family:" + p.family)
	run.Count("syntax:" + p.syntax)
	if compiles {
		run.Count("links:yes")
	} else {
		run.Count("links:no(parser-level descriptor compared)")
		if os.Getenv("C07_DEBUG") != "" && p.family != "dupimports" {
			_, cerr := compile(src)
			fmt.Fprintf(os.Stderr, "case %d does not link: %v\n", idx, cerr)
		}
	}
	nc := len(commentKeys(src))
	switch {
	case nc == 0:
		run.Count("comments:0")
	case nc < 10:
		run.Count("comments:1-9")
	default:
		run.Count("comments:10+")
	}
	switch n := len(p.toks); {
	case n < 50:
		run.Count("tokens:<50")
	case n < 200:
		run.Count("tokens:50-199")
	default:
		run.Count("tokens:200+")
	}
	verdictS := "valid " + facts(src, v.out)
	if v.class != "" {
		verdictS = "invalid:" + v.class
		reportFailures(run, idx, p, v, seen, 0)
	}
	if v.class == "" {
		// the implementation claims a valid translation: the Lean checker must agree and
		// derive the same facts from the input
		run.Case("fmt\t"+hx.Enc(src)+"\t"+hx.Enc(v.out)+"\t"+hx.Enc(v.out2), verdictS, src != v.out)
	} else {
		// oracle failure (reported above): the lexer / role automaton are still tied on the input
		run.Case("lexonly\t"+hx.Enc(src), lexFacts(src), true)
	}
	if idx < 3 {
		run.Sample(map[string]any{"family": p.family, "source": src, "formatted": v.out, "verdict": verdictS})
	}
}

func main() {
	file := flag.String("file", "", "debug: format this file, print the result and the oracle verdict")
	print := flag.Bool("print", false, "with --only: print the generated program and its formatting")
	onlyLit := flag.Int("only-lit", -1, "regenerate only this cell of the stratified option-literal family")
	onlyDeg := flag.Int("only-degenerate", -1, "regenerate only this text of the degenerate-file family")
	run := hx.Start("C07")
	if *file != "" {
		b, err := os.ReadFile(*file)
		if err != nil {
			panic(err)
		}
		v, compiles, gerr := judge(string(b))
		fmt.Printf("%s\n---- links=%v generr=%v class=%q what=%s\n", v.out, compiles, gerr, v.class, v.what)
		if gerr == nil {
			fmt.Println(facts(string(b), v.out))
			fmt.Println("fmt\t" + hx.Enc(string(b)) + "\t" + hx.Enc(v.out))
		}
		return
	}
	root := hx.NewRand(run.Seed)
	seen := map[string]bool{}
	// corpus first: minimised witnesses of past findings
	corpusDir := os.Getenv("VERIF_DIR")
	if corpusDir == "" {
		corpusDir = "."
	}
	if ents, err := os.ReadDir(corpusDir + "/corpus/C07"); err == nil && run.Only < 0 && *onlyLit < 0 && *onlyDeg < 0 {
		for _, e := range ents {
			if !strings.HasSuffix(e.Name(), ".proto") {
				continue
			}
			b, err := os.ReadFile(corpusDir + "/corpus/C07/" + e.Name())
			if err != nil {
				continue
			}
			src := string(b)
			v, _, gerr := judge(src)
			if gerr != nil {
				continue
			}
			run.Count("family:corpus")
			verdictS := "valid " + facts(src, v.out)
			if v.class != "" {
				verdictS = "invalid:" + v.class
				run.Fail(hx.OracleFailure{Class: v.class, What: "corpus/C07/" + e.Name() + ": " + v.what,
					Input:  map[string]any{"source": src, "formatted": v.out},
					Replay: "build/c07 --out /tmp/c07-replay --file corpus/C07/" + e.Name()})
			}
			if v.class == "" {
				run.Case("fmt\t"+hx.Enc(src)+"\t"+hx.Enc(v.out)+"\t"+hx.Enc(v.out2), verdictS, src != v.out)
			}
		}
	}
	n := run.N(700, 6000)
	if *onlyLit >= 0 || *onlyDeg >= 0 {
		n = 0
	}
	if run.Only < 0 && *onlyLit < 0 && os.Getenv("C07_NO_DEGENERATE") == "" {
		runDegenerate(run, seen, *onlyDeg, *print)
	}
	if run.Only < 0 && *onlyDeg < 0 && os.Getenv("C07_NO_LIT") == "" {
		runLit(run, seen, *onlyLit, *print)
	}
	for i := 0; i < n; i++ {
		if run.Only >= 0 && i != run.Only {
			continue
		}
		r := root.Fork(uint64(i))
		fam := families[i%len(families)]
		p := genProgram(r, fam)
		if *print {
			src := p.render()
			v, compiles, gerr := judge(src)
			fmt.Printf("%s\n==== formatted\n%s\n==== links=%v generr=%v class=%q what=%s\n", src, v.out, compiles, gerr, v.class, v.what)
		}
		runCase(run, i, p, seen)
	}
	run.CountN("dupimports:modifier-dropped-as-documented(not judged)", dupModifierDropped)
	run.Finish()
}
