package main

import (
	"fmt"
	"strings"
)

// The imported files every generated program may use: option definitions for every
// declaration kind (generated), and a few plain dependencies.

var optScopes = []struct{ prefix, extendee string }{
	{"f", "FileOptions"}, {"m", "MessageOptions"}, {"fld", "FieldOptions"}, {"e", "EnumOptions"},
	{"ev", "EnumValueOptions"}, {"s", "ServiceOptions"}, {"mt", "MethodOptions"}, {"o", "OneofOptions"},
	{"x", "ExtensionRangeOptions"},
}

func optsProto() string {
	var sb strings.Builder
	sb.WriteString(`syntax = "proto2";
package c07.opts;
import "google/protobuf/descriptor.proto";
import "google/protobuf/any.proto";
enum Kind { K0 = 0; K1 = 1; K2 = 2; }
message Cfg {
  optional int32 a = 1;
  optional string s = 2;
  repeated int32 r = 3;
  optional Cfg sub = 4;
  repeated Cfg subs = 5;
  optional double d = 6;
  optional float f = 7;
  optional Kind k = 8;
  optional bool b = 9;
  optional bytes y = 10;
  repeated string rs = 11;
  optional int64 i64 = 12;
  optional uint64 u64 = 13;
  optional google.protobuf.Any any = 14;
  map<string, int32> m = 15;
  optional group Grp = 16 { optional int32 ga = 1; }
  repeated double rd = 17;
  optional sint32 neg = 18;
  extensions 100 to 199;
}
extend Cfg {
  optional int32 cext = 100;
  optional Cfg cmsg = 101;
}
`)
	n := 50001
	for _, sc := range optScopes {
		fmt.Fprintf(&sb, "extend google.protobuf.%s {\n", sc.extendee)
		for _, o := range []string{"optional int32 %s_int", "optional string %s_str", "repeated int32 %s_rep", "optional Cfg %s_msg",
			"repeated Cfg %s_msgs", "optional double %s_dbl", "optional Kind %s_kind", "optional bool %s_bool", "repeated string %s_reps"} {
			fmt.Fprintf(&sb, "  "+o+" = %d;\n", sc.prefix, n)
			n++
		}
		sb.WriteString("}\n")
	}
	return sb.String()
}

var supportFiles = map[string]string{
	"c07/opts.proto": optsProto(),
	"c07/dep_a.proto": `syntax = "proto2";
package c07.a;
message A1 { optional int32 x = 1; extensions 1000 to 1999; }
enum AE { AE0 = 0; AE1 = 1; }
`,
	"c07/dep_b.proto": `syntax = "proto3";
package c07.b;
message B1 { int32 x = 1; }
enum BE { BE0 = 0; BE1 = 1; }
`,
	"c07/dep_c.proto": `syntax = "proto3";
package c07.c;
message C1 { string s = 1; }
`,
	"c07/dep_w.proto": `syntax = "proto2";
package c07.w;
message W1 { optional string s = 1; }
`,
	"c07/dep_p.proto": `syntax = "proto3";
package c07.p;
import public "c07/dep_c.proto";
message P1 { c07.c.C1 c = 1; }
`,
}
