package main

import (
	"fmt"
	"reflect"
	"sort"
	"strings"

	"github.com/bufbuild/protocompile/ast"
)

// Automatic, witness-specific classification of an oracle failure.
//
// The unchanged formatter mishandles comments at many individual attachment sites.  So that
// each such defect gets its own stable oracle class (and every OTHER failure still alarms),
// a failing program is reduced to the comments / token constructs that are NECESSARY for the
// failure and the class is "<base class>:<site>[+<site>...]" where a site names the grammar
// position of a comment:  L|T @ <parent AST node type>.<field> [/compact|/msglit|/array]
// <style //|/*> [!glued] [!blockend] [!after-comment].

type commentSite struct {
	key  string
	site string
}

func nodeType(n ast.Node) string {
	t := reflect.TypeOf(n)
	for t.Kind() == reflect.Ptr {
		t = t.Elem()
	}
	return t.Name()
}

func roleOf(parent, child ast.Node) string {
	v := reflect.ValueOf(parent)
	for v.Kind() == reflect.Ptr || v.Kind() == reflect.Interface {
		if v.IsNil() {
			return "?"
		}
		v = v.Elem()
	}
	if v.Kind() != reflect.Struct {
		return "?"
	}
	same := func(f reflect.Value) bool {
		if !f.CanInterface() {
			return false
		}
		switch f.Kind() {
		case reflect.Ptr, reflect.Interface:
			if f.IsNil() {
				return false
			}
			n, ok := f.Interface().(ast.Node)
			return ok && n == child
		}
		return false
	}
	for i := 0; i < v.NumField(); i++ {
		f := v.Field(i)
		name := v.Type().Field(i).Name
		switch f.Kind() {
		case reflect.Ptr, reflect.Interface:
			if same(f) {
				return name
			}
		case reflect.Slice:
			for j := 0; j < f.Len(); j++ {
				if same(f.Index(j)) {
					return name
				}
			}
		case reflect.Struct:
			// e.g. FieldNode.Label (ast.FieldLabel wraps *KeywordNode)
			for j := 0; j < f.NumField(); j++ {
				if same(f.Field(j)) {
					return name
				}
			}
		}
	}
	return "?"
}

func commentSites(src string) map[string]string {
	fileNode, err := parse(src)
	if err != nil {
		return nil
	}
	out := map[string]string{}
	var rec func(n ast.Node, parents []ast.Node)
	rec = func(n ast.Node, parents []ast.Node) {
		if cn, ok := n.(ast.CompositeNode); ok {
			for _, ch := range cn.Children() {
				rec(ch, append(parents, n))
			}
			return
		}
		info := fileNode.NodeInfo(n)
		where := "?"
		ctx := ""
		if len(parents) > 0 {
			p := parents[len(parents)-1]
			where = nodeType(p) + "." + roleOf(p, n)
			// identifiers inside compound names: name the grandparent too
			if _, ok := p.(*ast.CompoundIdentNode); ok && len(parents) > 1 {
				gp := parents[len(parents)-2]
				where = nodeType(gp) + "." + roleOf(gp, p) + ">" + where
			}
			if _, ok := p.(*ast.FieldReferenceNode); ok && len(parents) > 1 {
				gp := parents[len(parents)-2]
				where = nodeType(gp) + ">" + where
			}
		}
		for _, p := range parents {
			switch p.(type) {
			case *ast.CompactOptionsNode:
				ctx = "/compact"
			case *ast.MessageLiteralNode:
				ctx = "/msglit"
			case *ast.ArrayLiteralNode:
				ctx = "/array"
			}
		}
		if rn, ok := n.(*ast.RuneNode); ok && rn.Rune != 0 {
			where += fmt.Sprintf("'%c'", rn.Rune) // (the EOF token is a RuneNode with rune 0: plain "FileNode.EOF")
		}
		valueHasTrailing, compositeValue := false, false
		if len(parents) == 0 {
		} else if ml, ok := parents[len(parents)-1].(*ast.MessageLiteralNode); ok {
			for i, sp := range ml.Seps {
				if sp != nil && ast.Node(sp) == n && i < len(ml.Elements) {
					_, compositeValue = ml.Elements[i].Val.(ast.CompositeNode)
				}
			}
		}
		if strings.Contains(where, "MessageLiteralNode.Seps") {
			if prevTok, ok := fileNode.Tokens().Previous(n.(ast.TerminalNode).Token()); ok {
				valueHasTrailing = fileNode.TokenInfo(prevTok).TrailingComments().Len() > 0
			}
		}
		add := func(cs ast.Comments, kind string) {
			for i := 0; i < cs.Len(); i++ {
				c := cs.Index(i)
				raw := c.RawText()
				out[commentKey(raw)] = kind + "@" + where + ctx
				if kind == "T" && valueHasTrailing {
					out[commentKey(raw)] += "~value-has-trailing-comment"
				} else if kind == "T" && compositeValue {
					out[commentKey(raw)] += "~composite-value"
				}
			}
		}
		add(info.LeadingComments(), "L")
		add(info.TrailingComments(), "T")
	}
	rec(fileNode, nil)
	return out
}

// withoutComment returns the program with the comment whose key is k removed from its gap.
func (p *program) withoutComment(k string) *program {
	q := &program{toks: p.toks, gaps: append([]string{}, p.gaps...), empty: p.empty, family: p.family, syntax: p.syntax}
	for gi, g := range p.gaps {
		if !strings.Contains(g, "/") {
			continue
		}
		pieces := scan(g)
		for pi, pc := range pieces {
			if pc.kind == 'c' && commentKey(pc.text) == k {
				var sb strings.Builder
				for pj, x := range pieces {
					if pj != pi {
						sb.WriteString(x.text)
					}
				}
				ng := sb.String()
				prev, next := "", ""
				if gi > 0 {
					prev = p.toks[gi-1]
				}
				if gi < len(p.toks) {
					next = p.toks[gi]
				}
				if ng == "" && needSep(prev, next) {
					ng = " "
				}
				if strings.HasPrefix(ng, "/") && prev == "/" {
					ng = " " + ng
				}
				q.gaps[gi] = ng
				return q
			}
		}
	}
	return q
}

func (p *program) comments() []string {
	var ks []string
	for _, g := range p.gaps {
		if strings.Contains(g, "/") {
			for _, pc := range scan(g) {
				if pc.kind == 'c' {
					ks = append(ks, commentKey(pc.text))
				}
			}
		}
	}
	return ks
}

// withoutEmpties removes every empty statement.
func (p *program) withoutEmpties() *program {
	q := &program{family: p.family, syntax: p.syntax}
	carry := ""
	for i, t := range p.toks {
		if p.empty[i] {
			carry += p.gaps[i]
			continue
		}
		q.toks = append(q.toks, t)
		q.gaps = append(q.gaps, carry+p.gaps[i])
		q.empty = append(q.empty, false)
		carry = ""
	}
	q.gaps = append(q.gaps, carry+p.gaps[len(p.toks)])
	return q
}

// withOneSpelling removes the leading dot of every extension option name "( . c07" .
func (p *program) withOneSpelling() *program {
	q := &program{family: p.family, syntax: p.syntax}
	for i, t := range p.toks {
		if t == "." && i > 0 && p.toks[i-1] == "(" {
			// drop the dot, keep its gap in front of the next token
			if i+1 < len(p.gaps) {
				p = &program{toks: p.toks, gaps: append([]string{}, p.gaps...), empty: p.empty, family: p.family, syntax: p.syntax}
				p.gaps[i+1] = p.gaps[i] + p.gaps[i+1]
			}
			continue
		}
		q.toks = append(q.toks, t)
		q.gaps = append(q.gaps, p.gaps[i])
		q.empty = append(q.empty, p.empty[i])
	}
	q.gaps = append(q.gaps, p.gaps[len(p.toks)])
	return q
}

func failsWith(p *program, base string) bool {
	v, _, gerr := judge(p.render())
	return gerr == nil && v.class == base
}

// editGaps applies f to every comment piece / gap of the program.
func (p *program) editGaps(f func(gapIndex int, pieces []piece) string) *program {
	q := &program{toks: p.toks, gaps: append([]string{}, p.gaps...), empty: p.empty, family: p.family, syntax: p.syntax}
	for gi, g := range p.gaps {
		if strings.Contains(g, "/") {
			q.gaps[gi] = f(gi, scan(g))
		}
	}
	return q
}

// withoutBlockEnds rewrites "*/" inside line comments to "* /".
func (p *program) withoutBlockEnds() *program {
	return p.editGaps(func(_ int, pieces []piece) string {
		var sb strings.Builder
		for _, pc := range pieces {
			if pc.kind == 'c' && strings.HasPrefix(pc.text, "//") {
				sb.WriteString(strings.ReplaceAll(pc.text, "*/", "* /"))
			} else {
				sb.WriteString(pc.text)
			}
		}
		return sb.String()
	})
}

// unglued puts a space in front of every comment that directly follows a token or a comment.
func (p *program) unglued() *program {
	return p.editGaps(func(gi int, pieces []piece) string {
		var sb strings.Builder
		for i, pc := range pieces {
			if pc.kind == 'c' && (i > 0 && pieces[i-1].kind == 'c' || i == 0 && gi > 0) {
				sb.WriteString(" ")
			}
			sb.WriteString(pc.text)
		}
		return sb.String()
	})
}

// trimmedStart removes the whitespace at the very beginning of the file.
func (p *program) trimmedStart() *program {
	q := &program{toks: p.toks, gaps: append([]string{}, p.gaps...), empty: p.empty, family: p.family, syntax: p.syntax}
	q.gaps[0] = strings.TrimLeft(q.gaps[0], " \t\n\r\f\v")
	return q
}

type neutraliser struct {
	cause string
	apply func(*program) *program
}

// neutralisers: the token- and layout-level constructs recorded as findings; each entry
// rewrites the program so that the construct no longer occurs while everything else stays.
var neutralisers = []neutraliser{
	{"line-comment-containing-block-end", (*program).withoutBlockEnds},
	{"comment-glued-to-preceding-token", (*program).unglued},
	{"blank-lines-at-file-start", (*program).trimmedStart},
	{"empty-statement", (*program).withoutEmpties},
	{"same-option-spelled-two-ways", (*program).withOneSpelling},
}

func applyAll(p *program, mask []bool) *program {
	for i, n := range neutralisers {
		if mask[i] {
			p = n.apply(p)
		}
	}
	return p
}

// rootCause groups comment sites that hit the same code path of the formatter.
func rootCause(site string) string {
	switch {
	case strings.Contains(site, "EmptyDeclNode"):
		return "comment-on-empty-statement"
	case strings.Contains(site, "MessageLiteralNode.Seps") && strings.HasPrefix(site, "L@"):
		return "leading-comment-on-message-literal-separator"
	case strings.Contains(site, "MessageLiteralNode.Seps") && strings.HasSuffix(site, "~composite-value"):
		return "trailing-comment-on-message-literal-separator-after-composite-value"
	case strings.Contains(site, "MessageLiteralNode.Seps") && strings.HasSuffix(site, "~value-has-trailing-comment"):
		return "trailing-comment-on-message-literal-separator-whose-value-has-one"
	case strings.Contains(site, "OptionNameNode>FieldReferenceNode") && strings.Contains(site, "/compact"):
		return "comment-on-compact-option-name"
	case strings.Contains(site, "CompoundStringLiteralNode"):
		return "comment-inside-concatenated-string"
	case strings.Contains(site, "MessageFieldNode>FieldReferenceNode") && strings.Contains(site, "/msglit"):
		return "comment-in-message-literal-bracketed-field-name"
	case strings.Contains(site, "MessageLiteralNode.Close"):
		return "comment-on-message-literal-close"
	case strings.Contains(site, "ArrayLiteralNode.CloseBracket"):
		return "comment-before-array-literal-close"
	}
	return site
}

// pickCause attributes a failure that needs several comments to ONE cause: the first recorded
// root cause among them, else all sites (a new class).
func pickCause(sites []string) string {
	var causes []string
	for _, s := range sites {
		c := rootCause(s)
		if c != s {
			return c
		}
		causes = append(causes, c)
	}
	return strings.Join(causes, " + ")
}

// classify refines the oracle's base class for program p (which fails with verdict v) by
// counterfactuals: the causes are the constructs whose neutralisation is necessary to make
// the failure go away; for failures that need a comment at a particular grammar position the
// cause is that position.  A failure that survives every neutralisation and the removal of
// all comments keeps the bare base class.
func classify(p *program, v verdict) string {
	cs, _ := classifyAll(p, v)
	return cs[0]
}

// classifyAll returns EVERY class the failing verdict v of program p stands for, and the
// RESIDUAL program: p with the constructs / comments that explain those classes taken out.
// The caller judges the residual program again (and again, a few levels deep), so that a
// failure explained by a recorded finding never hides a second, unrelated failure of the
// same program: a comment-dropped verdict lists every missing comment and each is classified
// by its own grammar position; the comment-moved / idempotence / descriptor checks, which
// judge() only reaches when no comment is missing, then run on the residual program.
func classifyAll(p *program, v verdict) (classes []string, residual *program) {
	base := v.class
	src := p.render()
	switch base {
	case "comment-dropped", "comment-invented", "comment-moved":
		cms := v.comments
		if len(cms) == 0 && v.comment != "" {
			cms = []string{v.comment}
		}
		sites := commentSites(src)
		seen := map[string]bool{}
		for _, k := range cms {
			c := base
			if s, ok := sites[k]; ok {
				c = base + ":" + rootCause(s)
			}
			if !seen[c] {
				seen[c] = true
				classes = append(classes, c)
			}
		}
		if len(classes) == 0 {
			classes = []string{base}
		}
		if base != "comment-invented" && len(cms) > 0 {
			residual = p
			for _, k := range cms {
				residual = residual.withoutComment(k)
			}
			if residual.render() == src {
				residual = nil
			}
		}
		return classes, residual
	}
	mask := make([]bool, len(neutralisers))
	passedAt := -1
	for i := range neutralisers {
		mask[i] = true
		if !failsWith(applyAll(p, mask), base) {
			passedAt = i
			break
		}
	}
	if passedAt >= 0 {
		// drop the neutralisations that were not necessary
		for j := 0; j < passedAt; j++ {
			mask[j] = false
			if failsWith(applyAll(p, mask), base) {
				mask[j] = true
			}
		}
		for i, n := range neutralisers {
			if mask[i] {
				return []string{base + ":" + n.cause}, applyAll(p, mask) // the first necessary construct
			}
		}
	}
	q := applyAll(p, mask)
	stripped := q
	for _, k := range q.comments() {
		stripped = stripped.withoutComment(k)
	}
	if failsWith(stripped, base) {
		return []string{base}, nil
	}
	// needs comments at particular sites: find a 1-minimal set of comments
	cur := q
	var needed []string
	for _, k := range q.comments() {
		c := cur.withoutComment(k)
		if failsWith(c, base) {
			cur = c
		} else {
			needed = append(needed, k)
		}
	}
	sites := commentSites(cur.render())
	seen := map[string]bool{}
	var ss []string
	for _, k := range needed {
		s, ok := sites[k]
		if !ok {
			s = "?"
		}
		if !seen[s] {
			seen[s] = true
			ss = append(ss, s)
		}
	}
	sort.Strings(ss)
	if len(ss) > 3 {
		ss = ss[:3]
	}
	// residual: the ORIGINAL program without the comments that are necessary for this failure
	residual = p
	for _, k := range needed {
		residual = residual.withoutComment(k)
	}
	return []string{base + ":" + pickCause(ss)}, residual
}
