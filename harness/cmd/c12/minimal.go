package main

// The "minimal" clause of C12 (implementation only, no Lean model involved), computed on the
// RESULT image alone: every file, every element and every import of the filtered image is required
// by something that SURVIVES in it.
//
// "Required" is the documented closure, read generously (an over-approximation of what the filter
// may keep, so that nothing legitimate alarms):
//
//	roots      the included names that are in the result (for an included package: its files, i.e. their
//	           options and every element of them); for an exclude-only filter the target (non-import) files
//	message    -> the types of its SURVIVING fields, the custom options set on it and on its surviving
//	              fields / oneofs / extension ranges
//	enum       -> the custom options on it and on its values
//	service    -> its surviving methods, its options;  method -> request and response type, its options
//	extension  -> extendee, value type, its options
//	any of them-> the enclosing messages / service (as namespaces) with THEIR options, the options of
//	              its file
//	option use -> the extension that defines the option (the extendee google.protobuf.*Options is then
//	              needed "implicitly": its other extensions are not), every message named by a
//	              google.protobuf.Any inside the value, extensions used inside the value
//	message needed explicitly (not merely as the extendee of a used option) -> every extension of it
//	              that is in the result (unless exclude_known_extensions)
//
// Option values are read from the INPUT image's options (resolved against the input) for exactly
// the parts that are still in the result; parts the filter dropped (a field whose type is excluded,
// a oneof without members, a method whose request type is excluded, the fields of a message kept as
// a namespace only, ...) contribute nothing - that is the point of the clause.
//
//	not-minimal-option-of-dropped-element   a file / element / import of the result is needed by
//	                                        nothing that survives, and is reachable from a custom
//	                                        option set on an element of the input that the filter dropped
//	not-minimal                             ... needed by nothing that survives (any other reason)
//
// Exclude-only filters keep the non-target files they reach whole (hasType(unknown) = true, the
// recorded family exclude-only-import-file-not-closed): for those files only the file itself is
// judged (it must hold something that is needed), not its elements or imports.

import (
	"fmt"
	"sort"
	"strings"

	"github.com/bufbuild/buf/private/bufpkg/bufimage"
	"google.golang.org/protobuf/reflect/protoreflect"
	"google.golang.org/protobuf/types/descriptorpb"
)

const (
	needNone = iota
	needNamespace
	needImplicit
	needExplicit
)

type mref struct {
	name    string
	mode    int  // needNamespace / needImplicit / needExplicit
	inherit bool // extension -> extendee: as explicit as the extension itself
	why     string
}

type minimal struct {
	in         *resolvedImage
	customOpts bool
	knownExts  bool
}

func parentName(n string) string {
	if i := strings.LastIndexByte(n, '.'); i >= 0 {
		return n[:i]
	}
	return ""
}

// optRefs: what the custom options stored under one option site of the INPUT need.
func (m *minimal) optRefs(key string, out *[]mref) {
	if !m.customOpts {
		return
	}
	s := m.in.sites[key]
	if s == nil {
		return
	}
	rangeSorted(s.opts, func(fd protoreflect.FieldDescriptor, val protoreflect.Value) {
		if !fd.IsExtension() {
			return
		}
		ext := string(fd.FullName())
		*out = append(*out, mref{name: ext, mode: needImplicit, why: "custom option (" + ext + ") on " + key})
		var needs []need
		valueNeeds(m.in, fd, val, "("+ext+")", false, &needs)
		for _, n := range needs {
			switch n.kind {
			case "any-payload", "any-payload-nested":
				*out = append(*out, mref{name: n.name, mode: needExplicit, why: "Any payload " + n.at + " on " + key})
			case "extension":
				*out = append(*out, mref{name: n.name, mode: needImplicit, why: "extension used inside option value " + n.at + " on " + key})
			}
		}
	})
}

// siteKeys: the option sites that belong to one element (itself and its parts that are not
// elements of their own: fields, oneofs, extension ranges, enum values).
func siteKeys(name string, l located) []string {
	var keys []string
	switch d := l.desc.(type) {
	case *descriptorpb.DescriptorProto:
		keys = append(keys, "msg:"+name)
		for _, fd := range d.Field {
			keys = append(keys, "field:"+name+"."+fd.GetName())
		}
		for _, oo := range d.OneofDecl {
			keys = append(keys, "oneof:"+name+"."+oo.GetName())
		}
		for i := range d.ExtensionRange {
			keys = append(keys, fmt.Sprintf("range:%s#%d", name, i))
		}
	case *descriptorpb.EnumDescriptorProto:
		keys = append(keys, "enum:"+name)
		for _, v := range d.Value {
			keys = append(keys, "value:"+qual(parentName(name), v.GetName()))
		}
	case *descriptorpb.ServiceDescriptorProto:
		keys = append(keys, "svc:"+name)
	case *descriptorpb.MethodDescriptorProto:
		keys = append(keys, "method:"+name)
	case *descriptorpb.FieldDescriptorProto:
		if d.Extendee != nil {
			keys = append(keys, "ext:"+name)
		}
	}
	return keys
}

// refs: everything the element `name` of the image indexed by elems needs directly.
func (m *minimal) refs(elems map[string]located, name string) []mref {
	l, ok := elems[name]
	if !ok {
		return nil
	}
	var out []mref
	switch d := l.desc.(type) {
	case *descriptorpb.DescriptorProto:
		for _, fd := range d.Field {
			if fd.TypeName != nil {
				out = append(out, mref{name: trimDot(fd.GetTypeName()), mode: needExplicit, why: "type of field " + name + "." + fd.GetName()})
			}
		}
	case *descriptorpb.ServiceDescriptorProto:
		for _, md := range d.Method {
			out = append(out, mref{name: name + "." + md.GetName(), mode: needExplicit, why: "method of " + name})
		}
	case *descriptorpb.MethodDescriptorProto:
		out = append(out, mref{name: trimDot(d.GetInputType()), mode: needExplicit, why: "request type of " + name},
			mref{name: trimDot(d.GetOutputType()), mode: needExplicit, why: "response type of " + name})
	case *descriptorpb.FieldDescriptorProto:
		if d.Extendee != nil {
			out = append(out, mref{name: trimDot(d.GetExtendee()), inherit: true, why: "extendee of " + name})
		}
		if d.TypeName != nil {
			out = append(out, mref{name: trimDot(d.GetTypeName()), mode: needExplicit, why: "value type of " + name})
		}
	}
	for _, k := range siteKeys(name, l) {
		m.optRefs(k, &out)
	}
	// enclosing messages / service: namespaces, with their own options
	for p := l.parent; p != ""; {
		pl, ok := elems[p]
		if !ok || !(pl.kind == "msg" || pl.kind == "svc") {
			break
		}
		out = append(out, mref{name: p, mode: needNamespace, why: "encloses " + name})
		m.optRefs(pl.kind+":"+p, &out)
		p = pl.parent
	}
	m.optRefs("file:"+l.file, &out)
	return out
}

func minimalityOracle(pre *prepared, image, out bufimage.Image, f filterSpec, orig, got map[string]located,
	pkgFiles map[string][]bufimage.ImageFile, fail func(class, what string)) {
	in := pre.resolvedInput(image)
	if in.err != nil {
		return
	}
	m := &minimal{in: in, customOpts: !f.NoCustomOpts, knownExts: !f.NoKnownExts}
	excludeOnly := len(f.Include) == 0
	mode := map[string]int{}
	fileNeeded := map[string]bool{}
	extsOf := map[string][]string{}
	var names []string
	for n, l := range got {
		if isElem(l) {
			names = append(names, n)
		}
		if l.kind == "ext" {
			e := trimDot(l.desc.(*descriptorpb.FieldDescriptorProto).GetExtendee())
			extsOf[e] = append(extsOf[e], n)
		}
	}
	sort.Strings(names)
	for _, xs := range extsOf {
		sort.Strings(xs)
	}
	var visit func(name string, want int)
	visit = func(name string, want int) {
		l, ok := got[name]
		if !ok || !isElem(l) {
			return
		}
		cur := mode[name]
		if cur >= want {
			return
		}
		mode[name] = want
		fileNeeded[l.file] = true
		if want == needNamespace {
			return
		}
		if cur < needImplicit {
			for _, r := range m.refs(got, name) {
				w := r.mode
				if r.inherit {
					w = want
				}
				visit(r.name, w)
			}
		} else if l.kind == "ext" {
			visit(trimDot(l.desc.(*descriptorpb.FieldDescriptorProto).GetExtendee()), want)
		}
		if want == needExplicit && l.kind == "msg" && m.knownExts {
			for _, x := range extsOf[name] {
				visit(x, needExplicit)
			}
		}
	}
	// roots
	rootFile := map[string]bool{}
	if excludeOnly {
		for _, fl := range out.Files() {
			if !fl.IsImport() {
				rootFile[fl.Path()] = true
			}
		}
	} else {
		for _, n := range f.Include {
			if l, ok := orig[n]; ok && isElem(l) {
				visit(n, needExplicit)
				continue
			}
			for _, pf := range pkgFiles[n] {
				rootFile[pf.Path()] = true
			}
		}
	}
	for _, n := range names {
		if rootFile[got[n].file] {
			visit(n, needExplicit)
		}
	}
	// a root file is an element of the closure itself (addElement of the file descriptor): its own
	// options are followed even when it declares nothing
	for _, fl := range out.Files() {
		if rootFile[fl.Path()] {
			var fo []mref
			m.optRefs("file:"+fl.Path(), &fo)
			for _, r := range fo {
				visit(r.name, r.mode)
			}
		}
	}
	// why is something there?  reachable (in the INPUT) from a custom option on a dropped part
	var fromDropped map[string]string
	droppedOption := func(elemsOfFile string, name string) string {
		if fromDropped == nil {
			fromDropped = m.reachableFromDroppedOptions(orig, got, out)
		}
		if name != "" {
			return fromDropped[name]
		}
		var ns []string
		for n, l := range orig {
			if l.file == elemsOfFile && fromDropped[n] != "" {
				ns = append(ns, n)
			}
		}
		sort.Strings(ns)
		if len(ns) > 0 {
			return fromDropped[ns[0]] + " (reaches " + ns[0] + ")"
		}
		return ""
	}
	report := func(what, culprit string) {
		if culprit != "" {
			fail("not-minimal-option-of-dropped-element", what+"; it is reached from "+culprit+", which the filter dropped")
		} else {
			fail("not-minimal", what)
		}
	}
	// --- every element is needed ---
	for _, n := range names {
		l := got[n]
		if excludeOnly && l.isImp {
			continue
		}
		switch mode[n] {
		case needNone:
			report(fmt.Sprintf("%s %s (%s) is in the result but nothing that survives needs it", l.kind, n, l.file), droppedOption("", n))
			return
		case needNamespace:
			if d, isMsg := l.desc.(*descriptorpb.DescriptorProto); isMsg && (len(d.Field) > 0 || len(d.OneofDecl) > 0 || len(d.ExtensionRange) > 0) {
				report(fmt.Sprintf("message %s (%s) is needed as a namespace only but keeps its fields", n, l.file), droppedOption("", n))
				return
			}
		}
	}
	// --- every file is needed ---
	for _, fl := range out.Files() {
		if !fileNeeded[fl.Path()] && !rootFile[fl.Path()] {
			report(fmt.Sprintf("file %s is in the result but holds nothing that a surviving element needs", fl.Path()), droppedOption(fl.Path(), ""))
			return
		}
	}
	// --- every import is needed ---
	fileRefs := map[string]map[string]string{}
	for _, n := range names {
		l := got[n]
		if fileRefs[l.file] == nil {
			fileRefs[l.file] = map[string]string{}
		}
		for _, r := range m.refs(got, n) {
			if t, ok := got[r.name]; ok {
				fileRefs[l.file][t.file] = r.why
			}
		}
	}
	for _, fl := range out.Files() {
		if excludeOnly && fl.IsImport() {
			continue
		}
		var fo []mref
		m.optRefs("file:"+fl.Path(), &fo)
		for _, dep := range fl.FileDescriptorProto().Dependency {
			if dep == fl.Path() || fileRefs[fl.Path()][dep] != "" {
				continue
			}
			used := false
			for _, r := range fo {
				if t, ok := got[r.name]; ok && t.file == dep {
					used = true
				}
			}
			if used {
				continue
			}
			report(fmt.Sprintf("file %s of the result imports %s, which nothing that survives in the file refers to", fl.Path(), dep), droppedOption(dep, ""))
			return
		}
	}
}

// reachableFromDroppedOptions: the elements of the INPUT that are reachable from a custom option set
// on a part of the input that is not in the result, each with the option site it is reached from.
func (m *minimal) reachableFromDroppedOptions(orig, got map[string]located, out bufimage.Image) map[string]string {
	surviving := map[string]bool{}
	for n, l := range got {
		for _, k := range siteKeys(n, l) {
			surviving[k] = true
		}
	}
	for _, fl := range out.Files() {
		surviving["file:"+fl.Path()] = true
	}
	res := map[string]string{}
	var walk func(name, from string)
	walk = func(name, from string) {
		if _, ok := orig[name]; !ok || res[name] != "" {
			return
		}
		res[name] = from
		for _, r := range m.refs(orig, name) {
			if r.mode != needNamespace {
				walk(r.name, from)
			}
		}
	}
	for _, key := range m.in.order {
		if surviving[key] {
			continue
		}
		var rs []mref
		m.optRefs(key, &rs)
		for _, r := range rs {
			walk(r.name, "the custom options of "+key)
		}
	}
	return res
}
