package main

// Generator of small .proto workspaces for C12: nested types, maps, oneofs, proto3 optional,
// proto2 groups / extension ranges / extensions, custom options, public imports, files without
// types, services with shared request/response types, a comment on every element, target and
// non-target modules.
//
// Custom options are generated on EVERY kind of element (file, message, field, oneof, enum,
// enum value, service, method, extension range, extension) and their VALUES carry types:
// string / enum / message valued and repeated message valued options; message values with nested
// messages, enums, lists and maps of messages, maps of enums; google.protobuf.Any payloads at any
// depth (singular, in lists, in map values, inside nested messages, inside extensions of the
// value) written in the expanded `[type.googleapis.com/pkg.Msg]: {}` / `[type.googleprod.com/…]`
// syntax and as plain `type_url` strings with other hosts, several slashes, no slash at all, or
// naming nothing in the image; and (in one workspace out of three) extensions of an extendable
// option message used inside option values.

import (
	"fmt"
	"sort"
	"strings"

	"github.com/bufbuild/verifharness/internal/hx"
)

type gType struct {
	full   string // fully-qualified, no leading dot
	file   int
	isEnum bool
	proto2 bool
	leaf   bool // message without message-typed fields (safe extension / option value type)
	extd   bool // extendable (has an extension range)
}

type gFile struct {
	path    string
	pkg     string
	proto2  bool
	imports []int
	public  map[int]bool
	useOpts bool
	useX    bool // imports o/x.proto + o/xe.proto (extendable option message and its extensions)
	body    strings.Builder
	nTypes  int
}

type workspace struct {
	files     []*gFile
	nonTarget int // files[:nonTarget] live in the non-targeted module
	optsFile  int // index or -1
	xFiles    int // number of further fixed files after optsFile (0, or 2: o/x.proto, o/xe.proto)
	optStats  map[string]int
	types     []gType
	names     []string // candidate filter names (elements + packages)
	sources   [2]map[string]string
}

type gen struct {
	r     *hx.Rand
	ws    *workspace
	ctr   int
	names map[string]bool
}

func (g *gen) fresh(prefix string) string {
	g.ctr++
	return fmt.Sprintf("%s%d", prefix, g.ctr)
}

func qual(pkg, name string) string {
	if pkg == "" {
		return name
	}
	return pkg + "." + name
}

var scalarTypes = []string{"int32", "string", "bool", "bytes", "uint64"}

const optsSource = `syntax = "proto2";
package o;
import "google/protobuf/descriptor.proto";
import "google/protobuf/any.proto";
// c:OptV
message OptV {
  // c:s
  optional string s = 1;
  // c:a
  optional google.protobuf.Any a = 2;
  // c:kids
  repeated OptV kids = 3;
  // c:m
  map<string, google.protobuf.Any> m = 4;
  // c:e
  optional OptE e = 5;
  // c:inner
  optional Inner inner = 6;
  // c:as
  repeated google.protobuf.Any as = 7;
  // c:mv
  map<string, OptV> mv = 8;
  // c:me
  map<int32, OptE> me = 9;
  // c:Inner
  message Inner {
    // c:t
    optional string t = 1;
    // c:ia
    optional google.protobuf.Any ia = 2;
    // c:ie
    optional InnerE ie = 3;
  }
  // c:InnerE
  enum InnerE { IE0 = 0; IE1 = 1; }
}
// c:OptE
enum OptE { OE0 = 0; OE1 = 1; }
extend google.protobuf.FileOptions {
  optional string fopt = 50001; optional OptV fmsg = 50002; optional OptE fenum = 50003; repeated OptV frep = 50004;
}
extend google.protobuf.MessageOptions {
  // c:mopt
  optional string mopt = 50001;
  // c:mmsg
  optional OptV mmsg = 50002;
  // c:menum
  optional OptE menum = 50003;
  // c:mrep
  repeated OptV mrep = 50004;
}
extend google.protobuf.FieldOptions {
  optional string dopt = 50001; optional OptV dmsg = 50002; optional OptE denum = 50003; repeated OptV drep = 50004;
}
extend google.protobuf.OneofOptions { optional string oopt = 50001; optional OptV omsg = 50002; }
extend google.protobuf.EnumOptions { optional string eopt = 50001; optional OptV emsg = 50002; optional OptE eenum = 50003; }
extend google.protobuf.EnumValueOptions { optional string vopt = 50001; optional OptV vmsg = 50002; }
extend google.protobuf.ServiceOptions { optional string sopt = 50001; optional OptV smsg = 50002; }
extend google.protobuf.MethodOptions { optional string topt = 50001; optional OptV tmsg = 50002; repeated OptV trep = 50004; }
extend google.protobuf.ExtensionRangeOptions { optional string ropt = 50001; optional OptV rmsg = 50002; }
`

// An extendable option message (o/x.proto) and, in a file of its own (o/xe.proto), extensions of
// it: option values then use extensions (`{ [o.e.xs]: "v" }`) declared in a file that nothing but
// the option VALUE refers to.
const xSource = `syntax = "proto2";
package o;
import "google/protobuf/descriptor.proto";
import "google/protobuf/any.proto";
import "o/opts.proto";
// c:OptX
message OptX {
  // c:s
  optional string s = 1;
  // c:a
  optional google.protobuf.Any a = 2;
  // c:v
  optional OptV v = 3;
  extensions 100 to 199;
}
extend google.protobuf.FileOptions { optional OptX fx = 50020; }
extend google.protobuf.MessageOptions { optional OptX mx = 50020; }
extend google.protobuf.FieldOptions { optional OptX dx = 50020; }
extend google.protobuf.MethodOptions { optional OptX tx = 50020; }
`

const xeSource = `syntax = "proto2";
package o.e;
import "google/protobuf/any.proto";
import "o/opts.proto";
import "o/x.proto";
extend o.OptX {
  // c:xs
  optional string xs = 100;
  // c:xa
  optional google.protobuf.Any xa = 101;
  // c:xv
  optional o.OptV xv = 102;
  // c:xe
  optional o.OptE xe = 103;
}
`

var optsNames = []string{"o", "o.OptV", "o.OptE", "o.OptV.Inner", "o.OptV.InnerE",
	"o.fopt", "o.fmsg", "o.fenum", "o.frep", "o.mopt", "o.mmsg", "o.menum", "o.mrep", "o.dopt", "o.dmsg", "o.denum", "o.drep",
	"o.oopt", "o.omsg", "o.eopt", "o.emsg", "o.eenum", "o.vopt", "o.vmsg", "o.sopt", "o.smsg", "o.topt", "o.tmsg", "o.trep", "o.ropt", "o.rmsg",
	"google.protobuf", "google.protobuf.MessageOptions", "google.protobuf.FieldOptions", "google.protobuf.Any", "google.protobuf.FileOptions"}

var xNames = []string{"o.OptX", "o.fx", "o.mx", "o.dx", "o.tx", "o.e", "o.e.xs", "o.e.xa", "o.e.xv", "o.e.xe"}

// optDef is one custom option: kind 's' string, 'e' OptE, 'v' OptV, 'r' repeated OptV, 'x' OptX.
type optDef struct {
	name string
	kind byte
}

// siteOpts lists the custom options available on each kind of element.
var siteOpts = map[string][]optDef{
	"file":   {{"o.fopt", 's'}, {"o.fmsg", 'v'}, {"o.fenum", 'e'}, {"o.frep", 'r'}, {"o.fx", 'x'}},
	"msg":    {{"o.mopt", 's'}, {"o.mmsg", 'v'}, {"o.menum", 'e'}, {"o.mrep", 'r'}, {"o.mx", 'x'}},
	"field":  {{"o.dopt", 's'}, {"o.dmsg", 'v'}, {"o.denum", 'e'}, {"o.drep", 'r'}, {"o.dx", 'x'}},
	"oneof":  {{"o.oopt", 's'}, {"o.omsg", 'v'}},
	"enum":   {{"o.eopt", 's'}, {"o.emsg", 'v'}, {"o.eenum", 'e'}},
	"value":  {{"o.vopt", 's'}, {"o.vmsg", 'v'}},
	"svc":    {{"o.sopt", 's'}, {"o.smsg", 'v'}},
	"method": {{"o.topt", 's'}, {"o.tmsg", 'v'}, {"o.trep", 'r'}, {"o.tx", 'x'}},
	"range":  {{"o.ropt", 's'}, {"o.rmsg", 'v'}},
}

// visible returns the file indexes whose types file f can name (itself, imports, public closure).
func (ws *workspace) visible(f int) map[int]bool {
	vis := map[int]bool{f: true}
	var addPub func(i int)
	addPub = func(i int) {
		for _, j := range ws.files[i].imports {
			if ws.files[i].public[j] && !vis[j] {
				vis[j] = true
				addPub(j)
			}
		}
	}
	for _, j := range ws.files[f].imports {
		if !vis[j] {
			vis[j] = true
		}
		addPub(j)
	}
	return vis
}

func generateWorkspace(r *hx.Rand) *workspace {
	ws := &workspace{optsFile: -1, optStats: map[string]int{}}
	g := &gen{r: r, ws: ws, names: map[string]bool{}}
	pkgs := []string{"p", "p.q", "r", "p", ""}
	dirs := []string{"", "x/", "y/z/", ""}
	nContent := 2 + r.Intn(4)
	withOpts := r.Chance(3, 5)
	if withOpts {
		ws.optsFile = 0
		ws.files = append(ws.files, &gFile{path: "o/opts.proto", pkg: "o", proto2: true, public: map[int]bool{}})
		if r.Chance(1, 3) {
			ws.xFiles = 2
			ws.files = append(ws.files,
				&gFile{path: "o/x.proto", pkg: "o", proto2: true, public: map[int]bool{}, imports: []int{0}},
				&gFile{path: "o/xe.proto", pkg: "o.e", proto2: true, public: map[int]bool{}, imports: []int{0, 1}})
		}
	}
	fixed := func(j int) bool { return ws.optsFile >= 0 && j <= ws.optsFile+ws.xFiles }
	for i := 0; i < nContent; i++ {
		f := &gFile{
			path:   fmt.Sprintf("%sf%d.proto", hx.Pick(r, dirs), i),
			pkg:    hx.Pick(r, pkgs),
			proto2: r.Chance(1, 3),
			public: map[int]bool{},
		}
		self := len(ws.files)
		for j := 0; j < self; j++ {
			if j == ws.optsFile {
				if r.Chance(2, 3) {
					f.imports = append(f.imports, j)
					f.useOpts = true
					if ws.xFiles > 0 && r.Chance(2, 3) {
						f.imports = append(f.imports, j+1, j+2)
						f.useX = true
					}
				}
				continue
			}
			if fixed(j) {
				continue
			}
			if r.Chance(1, 2) {
				f.imports = append(f.imports, j)
				if r.Chance(1, 3) {
					f.public[j] = true
				}
			}
		}
		ws.files = append(ws.files, f)
	}
	// non-target prefix (in dependency order, so the non-target module is self-contained)
	if r.Chance(1, 2) {
		ws.nonTarget = r.Intn(len(ws.files))
	}
	// skeleton: decide type names per file first so fields can refer forwards and across files
	type skel struct {
		msgs  []string   // top-level message names
		sub   [][]string // nested message names per top-level message
		subE  [][]string // nested enum names
		enums []string
	}
	skels := make([]skel, len(ws.files))
	for i, f := range ws.files {
		if i == ws.optsFile {
			ws.types = append(ws.types, gType{full: "o.OptV", file: i, proto2: true}, gType{full: "o.OptE", file: i, isEnum: true, proto2: true},
				gType{full: "o.OptV.Inner", file: i, proto2: true}, gType{full: "o.OptV.InnerE", file: i, isEnum: true, proto2: true})
			continue
		}
		if fixed(i) {
			if f.path == "o/x.proto" {
				ws.types = append(ws.types, gType{full: "o.OptX", file: i, proto2: true})
			}
			continue
		}
		if r.Chance(1, 6) {
			continue // a file without types
		}
		sk := &skels[i]
		for k := r.Intn(4); k >= 0; k-- {
			name := g.fresh("M")
			sk.msgs = append(sk.msgs, name)
			var sub, subE []string
			for n := r.Intn(3); n > 0; n-- {
				sub = append(sub, g.fresh("N"))
			}
			if r.Chance(1, 3) {
				subE = append(subE, g.fresh("NE"))
			}
			sk.sub = append(sk.sub, sub)
			sk.subE = append(sk.subE, subE)
			ws.types = append(ws.types, gType{full: qual(f.pkg, name), file: i, proto2: f.proto2, extd: f.proto2 && r.Chance(1, 2)})
			for _, s := range sub {
				ws.types = append(ws.types, gType{full: qual(f.pkg, name+"."+s), file: i, proto2: f.proto2, leaf: r.Chance(1, 2)})
			}
			for _, s := range subE {
				ws.types = append(ws.types, gType{full: qual(f.pkg, name+"."+s), file: i, isEnum: true, proto2: f.proto2})
			}
		}
		for k := r.Intn(3); k > 0; k-- {
			name := g.fresh("E")
			sk.enums = append(sk.enums, name)
			ws.types = append(ws.types, gType{full: qual(f.pkg, name), file: i, isEnum: true, proto2: f.proto2})
		}
	}
	typeByName := map[string]*gType{}
	for i := range ws.types {
		typeByName[ws.types[i].full] = &ws.types[i]
	}
	pkgSet := map[string]bool{}
	for i, f := range ws.files {
		pkgSet[f.pkg] = true
		if fixed(i) {
			f.body.WriteString(map[string]string{"o/opts.proto": optsSource, "o/x.proto": xSource, "o/xe.proto": xeSource}[f.path])
			f.nTypes = 1
			continue
		}
		vis := ws.visible(i)
		var visMsgs, visEnums, visLeaf []string
		for _, t := range ws.types {
			if !vis[t.file] {
				continue
			}
			if t.isEnum {
				if !f.proto2 && t.proto2 {
					continue // proto3 cannot use proto2 enums
				}
				visEnums = append(visEnums, t.full)
			} else {
				visMsgs = append(visMsgs, t.full)
				if t.leaf {
					visLeaf = append(visLeaf, t.full)
				}
			}
		}
		useOpts := f.useOpts
		b := &f.body
		if f.proto2 {
			b.WriteString("syntax = \"proto2\";\n")
		} else {
			b.WriteString("syntax = \"proto3\";\n")
		}
		if f.pkg != "" {
			fmt.Fprintf(b, "package %s;\n", f.pkg)
		}
		for _, j := range f.imports {
			if f.public[j] {
				fmt.Fprintf(b, "import public %q;\n", ws.files[j].path)
			} else {
				fmt.Fprintf(b, "import %q;\n", ws.files[j].path)
			}
		}
		// --- option values -------------------------------------------------------------------
		stat := func(k string) { ws.optStats[k]++ }
		// anyLit is the literal of one google.protobuf.Any value.
		anyLit := func() string {
			if len(visMsgs) == 0 || r.Chance(1, 25) {
				stat("any-url:names-nothing")
				return `{ type_url: "example.com/p.Nope" }`
			}
			if len(visEnums) > 0 && r.Chance(1, 40) {
				stat("any-url:names-an-enum")
				return fmt.Sprintf(`{ type_url: "type.googleapis.com/%s" }`, hx.Pick(r, visEnums))
			}
			m := hx.Pick(r, visMsgs)
			switch r.Intn(9) {
			case 0, 1:
				stat("any-url:expanded-googleapis")
				return fmt.Sprintf("{ [type.googleapis.com/%s]: {} }", m)
			case 2:
				stat("any-url:expanded-googleprod")
				return fmt.Sprintf("{ [type.googleprod.com/%s]: {} }", m)
			case 3:
				stat("any-url:plain-googleapis")
				return fmt.Sprintf(`{ type_url: "type.googleapis.com/%s" }`, m)
			case 4:
				stat("any-url:plain-other-host-two-slashes")
				return fmt.Sprintf(`{ type_url: "example.com/types/%s" value: "" }`, m)
			case 5:
				stat("any-url:plain-no-slash")
				return fmt.Sprintf(`{ type_url: "%s" }`, m)
			case 6:
				stat("any-url:plain-scheme-and-path")
				return fmt.Sprintf(`{ type_url: "https://h.example/a/b/%s" }`, m)
			case 7:
				stat("any-url:plain-googleprod")
				return fmt.Sprintf(`{ type_url: "type.googleprod.com/%s" }`, m)
			default:
				if r.Chance(1, 3) {
					// an Any inside the PAYLOAD of an Any: the closure does not look into payload bytes
					// (TODO in exploreOptionSingularValueForAny); observed and counted, not judged
					stat("any-url:any-nested-inside-any-payload")
					return fmt.Sprintf(`{ [type.googleapis.com/o.OptV]: { s: "payload" a: { [type.googleapis.com/%s]: {} } } }`, m)
				}
				stat("any-url:expanded-with-payload-fields")
				return `{ [type.googleapis.com/o.OptV]: { s: "payload" e: OE1 } }`
			}
		}
		// optv is a literal of o.OptV: nested messages, enums, lists and maps of messages, Anys.
		var optv func(depth int) string
		optv = func(depth int) string {
			var parts []string
			add := func(kind, lit string) { parts = append(parts, lit); stat("opt-value:" + kind) }
			for len(parts) == 0 {
				if r.Chance(1, 3) {
					add("string", `s: "v"`)
				}
				if r.Chance(1, 3) {
					add("any", "a: "+anyLit())
				}
				if depth < 1 && r.Chance(1, 4) {
					add("list-of-messages", fmt.Sprintf("kids: [ %s, %s ]", optv(depth+1), optv(depth+1)))
				}
				if r.Chance(1, 5) {
					lit := fmt.Sprintf(`m: { key: "k1" value: %s }`, anyLit())
					if r.Bool() {
						lit += fmt.Sprintf(` m: { key: "k2" value: %s }`, anyLit())
					}
					add("map-of-any", lit)
				}
				if r.Chance(1, 6) {
					add("enum", "e: OE1")
				}
				if r.Chance(1, 5) {
					add("nested-message-with-any-and-enum", fmt.Sprintf(`inner: { t: "t" ia: %s ie: IE1 }`, anyLit()))
				}
				if r.Chance(1, 6) {
					add("list-of-any", fmt.Sprintf("as: [ %s, %s ]", anyLit(), anyLit()))
				}
				if depth < 1 && r.Chance(1, 5) {
					add("map-of-messages", fmt.Sprintf(`mv: { key: "k" value: %s }`, optv(depth+1)))
				}
				if r.Chance(1, 8) {
					add("map-of-enums", "me: { key: 1 value: OE1 }")
				}
			}
			return "{ " + strings.Join(parts, " ") + " }"
		}
		// optx is a literal of the extendable o.OptX: extensions (declared in o/xe.proto) inside the value.
		optx := func() string {
			var parts []string
			add := func(kind, lit string) { parts = append(parts, lit); stat("opt-value:" + kind) }
			for len(parts) == 0 {
				if r.Chance(1, 4) {
					add("string", `s: "x"`)
				}
				if r.Chance(1, 3) {
					add("extension-string", `[o.e.xs]: "v"`)
				}
				if r.Chance(1, 3) {
					add("extension-any", "[o.e.xa]: "+anyLit())
				}
				if r.Chance(1, 4) {
					add("extension-message", "[o.e.xv]: "+optv(1))
				}
				if r.Chance(1, 5) {
					add("extension-enum", "[o.e.xe]: OE1")
				}
				if r.Chance(1, 4) {
					add("any", "a: "+anyLit())
				}
				if r.Chance(1, 5) {
					add("nested-message", "v: "+optv(1))
				}
			}
			return "{ " + strings.Join(parts, " ") + " }"
		}
		// assigns picks 0-2 custom options for one element of the given kind ("(o.x) = value").
		assigns := func(site string, num, den int) []string {
			if !useOpts || !r.Chance(num, den) {
				return nil
			}
			var avail []optDef
			for _, d := range siteOpts[site] {
				if d.kind != 'x' || f.useX {
					avail = append(avail, d)
				}
			}
			n := 1
			if r.Chance(1, 5) {
				n = 2
			}
			used := map[string]bool{}
			var out []string
			for ; n > 0; n-- {
				d := hx.Pick(r, avail)
				for tries := 0; tries < 2 && d.kind == 's'; tries++ {
					d = hx.Pick(r, avail) // favour options whose values carry types
				}
				if used[d.name] {
					continue
				}
				used[d.name] = true
				kind, v := "", ""
				switch d.kind {
				case 's':
					kind, v = "string", `"q"`
				case 'e':
					kind, v = "enum", hx.Pick(r, []string{"OE1", "OE0"})
				case 'v':
					kind, v = "message", optv(0)
				case 'r':
					kind, v = "repeated-message", optv(0)
				case 'x':
					kind, v = "extendable-message", optx()
				}
				stat("opt-site:" + site + ":" + kind)
				out = append(out, fmt.Sprintf("(%s) = %s", d.name, v))
				if d.kind == 'r' && r.Bool() {
					out = append(out, fmt.Sprintf("(%s) = %s", d.name, optv(0)))
				}
			}
			return out
		}
		stmts := func(ind, site string, num, den int) string {
			var sb strings.Builder
			for _, a := range assigns(site, num, den) {
				fmt.Fprintf(&sb, "%soption %s;\n", ind, a)
			}
			return sb.String()
		}
		compact := func(site string, num, den int) string {
			as := assigns(site, num, den)
			if len(as) == 0 {
				return ""
			}
			return " [" + strings.Join(as, ", ") + "]"
		}
		b.WriteString(stmts("", "file", 1, 3))
		sk := skels[i]
		label := func() string {
			if f.proto2 {
				return hx.Pick(r, []string{"optional ", "optional ", "repeated "})
			}
			return hx.Pick(r, []string{"", "", "repeated ", "optional "})
		}
		fieldType := func() string {
			switch {
			case len(visMsgs) > 0 && r.Chance(2, 5):
				return "." + hx.Pick(r, visMsgs)
			case len(visEnums) > 0 && r.Chance(1, 4):
				return "." + hx.Pick(r, visEnums)
			}
			return hx.Pick(r, scalarTypes)
		}
		fieldOpt := func() string { return compact("field", 1, 5) }
		var writeMsg func(ind, scope, name string, sub, subE []string, top bool)
		writeMsg = func(ind, scope, name string, sub, subE []string, top bool) {
			full := qual(scope, name)
			fmt.Fprintf(b, "%s// c:%s\n%smessage %s {\n", ind, name, ind, name)
			in := ind + "  "
			b.WriteString(stmts(in, "msg", 1, 4))
			num := 1
			nf := r.Intn(5)
			isLeaf := typeByName[full] != nil && typeByName[full].leaf
			for k := 0; k < nf; k++ {
				fname := g.fresh("f")
				switch {
				case !isLeaf && r.Chance(1, 7):
					v := fieldType()
					fmt.Fprintf(b, "%s// c:%s\n%smap<string, %s> %s = %d%s;\n", in, fname, in, v, fname, num, fieldOpt())
				case !isLeaf && r.Chance(1, 6):
					oname := g.fresh("oo")
					fmt.Fprintf(b, "%s// c:%s\n%soneof %s {\n", in, oname, in, oname)
					b.WriteString(stmts(in+"  ", "oneof", 1, 3))
					for n := 1 + r.Intn(3); n > 0; n-- {
						fn := g.fresh("f")
						fmt.Fprintf(b, "%s  // c:%s\n%s  %s %s = %d%s;\n", in, fn, in, fieldType(), fn, num, fieldOpt())
						num++
					}
					fmt.Fprintf(b, "%s}\n", in)
				case !isLeaf && f.proto2 && r.Chance(1, 8):
					gname := g.fresh("G")
					fmt.Fprintf(b, "%s// c:%s\n%soptional group %s = %d {\n%s  optional %s %s = 1;\n%s}\n", in, gname, in, gname, num, in, fieldType(), g.fresh("f"), in)
					ws.names = append(ws.names, qual(full, gname))
				case isLeaf:
					fmt.Fprintf(b, "%s// c:%s\n%s%s%s %s = %d%s;\n", in, fname, in, label(), hx.Pick(r, scalarTypes), fname, num, fieldOpt())
				default:
					fmt.Fprintf(b, "%s// c:%s\n%s%s%s %s = %d%s;\n", in, fname, in, label(), fieldType(), fname, num, fieldOpt())
				}
				num++
			}
			if t := typeByName[full]; t != nil && t.extd {
				fmt.Fprintf(b, "%sextensions 100 to 199%s;\n", in, compact("range", 1, 2))
			}
			if r.Chance(1, 6) {
				fmt.Fprintf(b, "%sreserved 900 to 910;\n", in)
			}
			if top {
				for _, s := range sub {
					writeMsg(in, full, s, nil, nil, false)
				}
				for _, e := range subE {
					fmt.Fprintf(b, "%s// c:%s\n%senum %s {\n%s%s  %s_0 = 0;\n%s  %s_1 = 1%s;\n%s}\n", in, e, in, e,
						stmts(in+"  ", "enum", 1, 4), in, e, in, e, compact("value", 1, 4), in)
				}
			}
			fmt.Fprintf(b, "%s}\n", ind)
			ws.names = append(ws.names, full)
		}
		for k, m := range sk.msgs {
			writeMsg("", f.pkg, m, sk.sub[k], sk.subE[k], true)
			for _, e := range sk.subE[k] {
				ws.names = append(ws.names, qual(f.pkg, m+"."+e))
			}
			f.nTypes++
		}
		for _, e := range sk.enums {
			eo := stmts("  ", "enum", 1, 3)
			vo0, vo := compact("value", 1, 6), compact("value", 1, 3)
			fmt.Fprintf(b, "// c:%s\nenum %s {\n%s  // c:%s_0\n  %s_0 = 0%s;\n  %s_1 = 1%s;\n}\n", e, e, eo, e, e, vo0, e, vo)
			ws.names = append(ws.names, qual(f.pkg, e))
			f.nTypes++
		}
		// services with shared request / response types
		if len(visMsgs) > 0 && r.Chance(1, 2) {
			sname := g.fresh("S")
			fmt.Fprintf(b, "// c:%s\nservice %s {\n", sname, sname)
			b.WriteString(stmts("  ", "svc", 1, 3))
			pool := []string{hx.Pick(r, visMsgs), hx.Pick(r, visMsgs), hx.Pick(r, visMsgs)}
			for n := 1 + r.Intn(3); n > 0; n-- {
				mn := g.fresh("Rpc")
				mo := ";"
				if so := stmts("    ", "method", 1, 3); so != "" {
					mo = " {\n" + so + "  }"
				}
				fmt.Fprintf(b, "  // c:%s\n  rpc %s(.%s) returns (.%s)%s\n", mn, mn, hx.Pick(r, pool), hx.Pick(r, pool), mo)
				ws.names = append(ws.names, qual(f.pkg, sname+"."+mn))
			}
			b.WriteString("}\n")
			ws.names = append(ws.names, qual(f.pkg, sname))
			f.nTypes++
		}
		// proto2: extensions of visible extendable messages.  Value types are scalars, enums or leaf
		// messages so that adding an extension never makes another extendable message explicit
		// (keeps addExtensions independent of Go's map iteration order; checked again in main.go).
		if f.proto2 {
			var extd []string
			for _, t := range ws.types {
				if vis[t.file] && t.extd {
					extd = append(extd, t.full)
				}
			}
			used := map[string]int{}
			for n := r.Intn(3); n > 0 && len(extd) > 0; n-- {
				target := hx.Pick(r, extd)
				xn := g.fresh("x")
				ty := hx.Pick(r, scalarTypes)
				if len(visLeaf) > 0 && r.Chance(1, 2) {
					ty = "." + hx.Pick(r, visLeaf)
				} else if len(visEnums) > 0 && r.Chance(1, 3) {
					ty = "." + hx.Pick(r, visEnums)
				}
				// extension numbers must be unique per extendee across the workspace
				used[target]++
				num := 100 + (g.ctr % 100)
				fmt.Fprintf(b, "extend .%s {\n  // c:%s\n  optional %s %s = %d%s;\n}\n", target, xn, ty, xn, num, fieldOpt())
				ws.names = append(ws.names, qual(f.pkg, xn))
				f.nTypes++
			}
		}
	}
	for p := range pkgSet {
		for p != "" {
			ws.names = append(ws.names, p)
			if i := strings.LastIndexByte(p, '.'); i >= 0 {
				p = p[:i]
			} else {
				p = ""
			}
		}
	}
	ws.names = append(ws.names, "")
	if ws.optsFile >= 0 {
		ws.names = append(ws.names, optsNames...)
		if ws.xFiles > 0 {
			ws.names = append(ws.names, xNames...)
		}
	}
	sort.Strings(ws.names)
	ws.names = uniq(ws.names)
	ws.sources = [2]map[string]string{{}, {}}
	for i, f := range ws.files {
		if i < ws.nonTarget {
			ws.sources[1][f.path] = f.body.String()
		} else {
			ws.sources[0][f.path] = f.body.String()
		}
	}
	return ws
}

func uniq(xs []string) []string {
	var out []string
	for i, x := range xs {
		if i == 0 || xs[i-1] != x {
			out = append(out, x)
		}
	}
	return out
}

// Hand-written witnesses (run first): the three defects of DESIGN §7 row 9 and the further
// exclude families found while building the check.  9a, 9b, 9d, 9f, "dropped-extension" and
// "included-extension" are repaired in /repo: their witnesses stay as regression inputs (a
// regression is a real failure).
type witness struct {
	name     string
	target   map[string]string
	imported map[string]string
	include  []string
	exclude  []string
}

const witnessOpts = `syntax = "proto2"; package o; import "google/protobuf/descriptor.proto"; import "google/protobuf/any.proto";
message V { optional google.protobuf.Any a = 1; map<string, google.protobuf.Any> m = 2; repeated google.protobuf.Any as = 3; optional V in = 4; map<string, V> mv = 5; }
extend google.protobuf.MessageOptions { optional V mo = 50001; }
extend google.protobuf.FieldOptions { optional V fo = 50001; }
`

var witnesses = []witness{
	{name: "9a-typeless-file",
		target: map[string]string{
			"a.proto": "syntax = \"proto3\"; package p;\n// c:X\nmessage X {}\n// c:Y\nmessage Y {}\n",
			"e.proto": "syntax = \"proto3\"; package e;\n"},
		exclude: []string{"p.X"}},
	{name: "9b-exclude-rpc-request",
		target: map[string]string{
			"a.proto": "syntax = \"proto3\"; package p;\nmessage X {}\nmessage Y {}\nservice S { rpc A(X) returns (Y); rpc B(Y) returns (X); rpc C(Y) returns (Y); }\n"},
		exclude: []string{"p.X"}},
	{name: "9b-exclude-rpc-response",
		target: map[string]string{
			"a.proto": "syntax = \"proto3\"; package p;\nmessage X {}\nmessage Y {}\nservice S { rpc A(X) returns (Y); rpc C(X) returns (X); }\n"},
		exclude: []string{"p.Y"}},
	{name: "9c-exclude-map-value",
		target: map[string]string{
			"a.proto": "syntax = \"proto3\"; package p;\nmessage X {}\nmessage Z { map<string, X> m = 1; int32 k = 2; }\n"},
		exclude: []string{"p.X"}},
	{name: "9d-oneof-index",
		target: map[string]string{
			"a.proto": "syntax = \"proto3\"; package p;\nmessage X {}\nmessage Y {}\nmessage A { oneof first { X x = 1; } oneof second { Y y = 2; int32 z = 3; } }\n"},
		include: []string{"p.A"}, exclude: []string{"p.X"}},
	{name: "9f-everything-excluded",
		target: map[string]string{
			"a.proto": "syntax = \"proto3\"; package p;\n// c:X\nmessage X {}\n"},
		exclude: []string{"p"}},
	{name: "9e-unvisited-import",
		target: map[string]string{
			"a.proto": "syntax = \"proto3\"; package p; import \"dep.proto\";\nmessage A { d.D1 x = 1; }\nmessage B {}\n"},
		imported: map[string]string{
			"dep.proto":   "syntax = \"proto3\"; package d; import \"other.proto\";\nmessage D1 {}\nmessage D2 { o.O o = 1; }\n",
			"other.proto": "syntax = \"proto3\"; package o;\nmessage O {}\n"},
		exclude: []string{"p.B"}},
	// Any payloads inside option values whose type URL does not use the default prefix, in a
	// singular field, a map value, a list, a nested message and a map of messages.
	{name: "any-payload-url-forms",
		target: map[string]string{
			"o.proto": witnessOpts,
			"a.proto": "syntax = \"proto3\"; package p; import \"o.proto\";\n// c:P1\nmessage P1 {}\n// c:P2\nmessage P2 {}\n// c:P3\nmessage P3 {}\n// c:P4\nmessage P4 {}\n// c:P5\nmessage P5 {}\n// c:P6\nmessage P6 {}\n" +
				"// c:A\nmessage A {\n  option (o.mo) = { a: { [type.googleprod.com/p.P1]: {} } m: { key: \"k\" value: { type_url: \"example.com/types/p.P2\" } } as: [ { type_url: \"p.P3\" } ] in: { a: { type_url: \"https://h.example/x/y/p.P4\" } } mv: { key: \"k\" value: { m: { key: \"j\" value: { type_url: \"/p.P5\" } } } } };\n  int32 x = 1 [(o.fo) = { as: [ { [type.googleapis.com/p.P6]: {} } ] }];\n}\n// c:B\nmessage B {}\n"},
		include: []string{"p.A"}},
	{name: "any-payload-url-forms-exclude-only",
		target: map[string]string{
			"o.proto": witnessOpts,
			"a.proto": "syntax = \"proto3\"; package p; import \"o.proto\"; import \"b.proto\";\n" +
				"// c:A\nmessage A {\n  option (o.mo) = { m: { key: \"k\" value: { type_url: \"example.com/types/q.Q1\" } } in: { a: { [type.googleprod.com/q.Q2]: {} } } };\n}\n// c:B\nmessage B {}\n",
			"b.proto": "syntax = \"proto3\"; package q;\n// c:Q1\nmessage Q1 {}\n// c:Q2\nmessage Q2 {}\n// c:Q3\nmessage Q3 {}\n"},
		exclude: []string{"p.B", "q.Q3"}},
	// Regression inputs of the two repaired families (fix: oneof indexes follow dropped oneofs; fix:
	// an extension dropped for its value type does not pull in its extendee).
	{name: "9d-oneof-index-proto3-optional",
		target: map[string]string{
			"a.proto": "syntax = \"proto3\"; package p;\n// c:X\nmessage X {}\n// c:Y\nmessage Y {}\n// c:A\nmessage A {\n  // c:x\n  optional X x = 1;\n  // c:y\n  optional Y y = 2;\n  int32 k = 3;\n  // c:o\n  oneof o { int32 a = 4; Y b = 5; }\n  // c:z\n  optional int32 z = 6;\n}\n"},
		include: []string{"p.A"}, exclude: []string{"p.X"}},
	{name: "9d-oneof-index-middle-nested",
		target: map[string]string{
			"a.proto": "syntax = \"proto3\"; package p;\nmessage X {}\nmessage Y {}\nmessage Outer {\n  message A {\n    // c:first\n    oneof first { Y f1 = 1; int32 f2 = 2; }\n    // c:second\n    oneof second { X s1 = 3; X s2 = 4; }\n    // c:third\n    oneof third { Y t1 = 5; }\n    // c:fourth\n    oneof fourth { X u1 = 6; }\n    // c:fifth\n    oneof fifth { string v1 = 7; Y v2 = 8; }\n    int32 plain = 9;\n  }\n  A a = 1;\n}\n"},
		exclude: []string{"p.X"}},
	{name: "dropped-extension-extendee-import",
		target: map[string]string{
			"x/f4.proto": "syntax = \"proto2\"; package p; import \"y/f1.proto\";\nmessage NE {}\nmessage K { optional int32 k = 1; }\nextend M7 { optional NE x89 = 189; }\n",
			"y/f1.proto": "syntax = \"proto2\"; package p;\nmessage M7 { extensions 100 to 200; }\n"},
		exclude: []string{"p.NE"}},
	{name: "dropped-extension-extendee-import-include",
		target: map[string]string{
			"x/f4.proto": "syntax = \"proto2\"; package p; import \"y/f1.proto\";\nmessage NE {}\nmessage K { optional int32 k = 1; }\nextend M7 { optional NE x89 = 189; }\n",
			"y/f1.proto": "syntax = \"proto2\"; package p;\nmessage M7 { extensions 100 to 200; }\n"},
		include: []string{"p.K", "p.M7"}, exclude: []string{"p.NE"}},
	// fix: including an extension by name whose value type is excluded is an error (it used to
	// succeed without the extension)
	{name: "included-extension-excluded-value-type",
		target: map[string]string{
			"x/f4.proto": "syntax = \"proto2\"; package p; import \"y/f1.proto\";\nmessage NE {}\nmessage K { optional int32 k = 1; }\nextend M7 { optional NE x89 = 189; optional K x90 = 190; }\n",
			"y/f1.proto": "syntax = \"proto2\"; package p;\nmessage M7 { extensions 100 to 200; }\n"},
		include: []string{"p.x89"}, exclude: []string{"p.NE"}},
	// a field dropped for its excluded type carries the only use of a custom option: the option's
	// definition, its value type, the Any payload and their files must not be kept (minimal, idempotent)
	{name: "option-of-dropped-field",
		target: map[string]string{
			"opts.proto": "syntax = \"proto3\"; package opts; import \"google/protobuf/descriptor.proto\"; import \"google/protobuf/any.proto\";\n// c:Tag\nmessage Tag { string name = 1; google.protobuf.Any a = 2; }\nextend google.protobuf.FieldOptions { Tag tag = 50001; }\n",
			"pay.proto":  "syntax = \"proto3\"; package pay;\n// c:P\nmessage P {}\n",
			"b.proto":    "syntax = \"proto3\"; package b;\n// c:B\nmessage B { string v = 1; }\n",
			"a.proto":    "syntax = \"proto3\"; package a; import \"b.proto\"; import \"opts.proto\"; import \"pay.proto\";\n// c:A\nmessage A {\n  string id = 1;\n  // c:b\n  b.B b = 2 [(opts.tag) = { name: \"only-here\" a: { [type.googleapis.com/pay.P]: {} } }];\n}\n"},
		include: []string{"a.A"}, exclude: []string{"b.B"}},
	{name: "included-extension-kept",
		target: map[string]string{
			"x/f4.proto": "syntax = \"proto2\"; package p; import \"y/f1.proto\";\nmessage NE {}\nmessage K { optional int32 k = 1; }\nextend M7 { optional NE x89 = 189; optional K x90 = 190; }\n",
			"y/f1.proto": "syntax = \"proto2\"; package p;\nmessage M7 { extensions 100 to 200; }\n"},
		include: []string{"p.x90"}, exclude: []string{"p.NE"}},
}
