package main

// Generator of small .proto workspaces for C12: nested types, maps, oneofs, proto3 optional,
// proto2 groups / extension ranges / extensions, custom options (scalar and message valued,
// with google.protobuf.Any payloads), public imports, files without types, services with
// shared request/response types, a comment on every element, target and non-target modules.

import (
	"fmt"
	"sort"
	"strings"

	"github.com/bufbuild/verifharness/internal/hx"
)

type gType struct {
	full   string // fully-qualified, no leading dot
	file   int
	isEnum bool
	proto2 bool
	leaf   bool // message without message-typed fields (safe extension / option value type)
	extd   bool // extendable (has an extension range)
}

type gFile struct {
	path    string
	pkg     string
	proto2  bool
	imports []int
	public  map[int]bool
	useOpts bool
	body    strings.Builder
	nTypes  int
}

type workspace struct {
	files     []*gFile
	nonTarget int // files[:nonTarget] live in the non-targeted module
	optsFile  int // index or -1
	types     []gType
	names     []string // candidate filter names (elements + packages)
	sources   [2]map[string]string
}

type gen struct {
	r     *hx.Rand
	ws    *workspace
	ctr   int
	names map[string]bool
}

func (g *gen) fresh(prefix string) string {
	g.ctr++
	return fmt.Sprintf("%s%d", prefix, g.ctr)
}

func qual(pkg, name string) string {
	if pkg == "" {
		return name
	}
	return pkg + "." + name
}

var scalarTypes = []string{"int32", "string", "bool", "bytes", "uint64"}

const optsSource = `syntax = "proto2";
package o;
import "google/protobuf/descriptor.proto";
import "google/protobuf/any.proto";
// c:OptV
message OptV {
  // c:s
  optional string s = 1;
  // c:a
  optional google.protobuf.Any a = 2;
  // c:kids
  repeated OptV kids = 3;
  // c:m
  map<string, google.protobuf.Any> m = 4;
}
// c:OptE
enum OptE { OE0 = 0; OE1 = 1; }
extend google.protobuf.FileOptions { optional string fopt = 50001; optional OptV fmsg = 50002; }
extend google.protobuf.MessageOptions {
  // c:mopt
  optional string mopt = 50001;
  // c:mmsg
  optional OptV mmsg = 50002;
  // c:menum
  optional OptE menum = 50003;
}
extend google.protobuf.FieldOptions { optional string dopt = 50001; optional OptV dmsg = 50002; }
extend google.protobuf.OneofOptions { optional string oopt = 50001; }
extend google.protobuf.EnumOptions { optional string eopt = 50001; optional OptV emsg = 50002; }
extend google.protobuf.EnumValueOptions { optional string vopt = 50001; }
extend google.protobuf.ServiceOptions { optional string sopt = 50001; optional OptV smsg = 50002; }
extend google.protobuf.MethodOptions { optional string topt = 50001; optional OptV tmsg = 50002; }
extend google.protobuf.ExtensionRangeOptions { optional string ropt = 50001; }
`

var optsNames = []string{"o", "o.OptV", "o.OptE", "o.fopt", "o.fmsg", "o.mopt", "o.mmsg", "o.menum", "o.dopt", "o.dmsg",
	"o.oopt", "o.eopt", "o.emsg", "o.vopt", "o.sopt", "o.smsg", "o.topt", "o.tmsg", "o.ropt",
	"google.protobuf", "google.protobuf.MessageOptions", "google.protobuf.FieldOptions", "google.protobuf.Any", "google.protobuf.FileOptions"}

// visible returns the file indexes whose types file f can name (itself, imports, public closure).
func (ws *workspace) visible(f int) map[int]bool {
	vis := map[int]bool{f: true}
	var addPub func(i int)
	addPub = func(i int) {
		for _, j := range ws.files[i].imports {
			if ws.files[i].public[j] && !vis[j] {
				vis[j] = true
				addPub(j)
			}
		}
	}
	for _, j := range ws.files[f].imports {
		if !vis[j] {
			vis[j] = true
		}
		addPub(j)
	}
	return vis
}

func generateWorkspace(r *hx.Rand) *workspace {
	ws := &workspace{optsFile: -1}
	g := &gen{r: r, ws: ws, names: map[string]bool{}}
	pkgs := []string{"p", "p.q", "r", "p", ""}
	dirs := []string{"", "x/", "y/z/", ""}
	nContent := 2 + r.Intn(4)
	withOpts := r.Chance(3, 5)
	if withOpts {
		ws.optsFile = 0
		ws.files = append(ws.files, &gFile{path: "o/opts.proto", pkg: "o", proto2: true, public: map[int]bool{}})
	}
	for i := 0; i < nContent; i++ {
		f := &gFile{
			path:   fmt.Sprintf("%sf%d.proto", hx.Pick(r, dirs), i),
			pkg:    hx.Pick(r, pkgs),
			proto2: r.Chance(1, 3),
			public: map[int]bool{},
		}
		self := len(ws.files)
		for j := 0; j < self; j++ {
			if j == ws.optsFile {
				if r.Chance(2, 3) {
					f.imports = append(f.imports, j)
					f.useOpts = true
				}
				continue
			}
			if r.Chance(1, 2) {
				f.imports = append(f.imports, j)
				if r.Chance(1, 3) {
					f.public[j] = true
				}
			}
		}
		ws.files = append(ws.files, f)
	}
	// non-target prefix (in dependency order, so the non-target module is self-contained)
	if r.Chance(1, 2) {
		ws.nonTarget = r.Intn(len(ws.files))
	}
	// skeleton: decide type names per file first so fields can refer forwards and across files
	type skel struct {
		msgs  []string   // top-level message names
		sub   [][]string // nested message names per top-level message
		subE  [][]string // nested enum names
		enums []string
	}
	skels := make([]skel, len(ws.files))
	for i, f := range ws.files {
		if i == ws.optsFile {
			ws.types = append(ws.types, gType{full: "o.OptV", file: i, proto2: true}, gType{full: "o.OptE", file: i, isEnum: true, proto2: true})
			continue
		}
		if r.Chance(1, 6) {
			continue // a file without types
		}
		sk := &skels[i]
		for k := r.Intn(4); k >= 0; k-- {
			name := g.fresh("M")
			sk.msgs = append(sk.msgs, name)
			var sub, subE []string
			for n := r.Intn(3); n > 0; n-- {
				sub = append(sub, g.fresh("N"))
			}
			if r.Chance(1, 3) {
				subE = append(subE, g.fresh("NE"))
			}
			sk.sub = append(sk.sub, sub)
			sk.subE = append(sk.subE, subE)
			ws.types = append(ws.types, gType{full: qual(f.pkg, name), file: i, proto2: f.proto2, extd: f.proto2 && r.Chance(1, 2)})
			for _, s := range sub {
				ws.types = append(ws.types, gType{full: qual(f.pkg, name+"."+s), file: i, proto2: f.proto2, leaf: r.Chance(1, 2)})
			}
			for _, s := range subE {
				ws.types = append(ws.types, gType{full: qual(f.pkg, name+"."+s), file: i, isEnum: true, proto2: f.proto2})
			}
		}
		for k := r.Intn(3); k > 0; k-- {
			name := g.fresh("E")
			sk.enums = append(sk.enums, name)
			ws.types = append(ws.types, gType{full: qual(f.pkg, name), file: i, isEnum: true, proto2: f.proto2})
		}
	}
	typeByName := map[string]*gType{}
	for i := range ws.types {
		typeByName[ws.types[i].full] = &ws.types[i]
	}
	pkgSet := map[string]bool{}
	for i, f := range ws.files {
		pkgSet[f.pkg] = true
		if i == ws.optsFile {
			f.body.WriteString(optsSource)
			f.nTypes = 1
			continue
		}
		vis := ws.visible(i)
		var visMsgs, visEnums, visLeaf []string
		for _, t := range ws.types {
			if !vis[t.file] {
				continue
			}
			if t.isEnum {
				if !f.proto2 && t.proto2 {
					continue // proto3 cannot use proto2 enums
				}
				visEnums = append(visEnums, t.full)
			} else {
				visMsgs = append(visMsgs, t.full)
				if t.leaf {
					visLeaf = append(visLeaf, t.full)
				}
			}
		}
		useOpts := f.useOpts
		b := &f.body
		if f.proto2 {
			b.WriteString("syntax = \"proto2\";\n")
		} else {
			b.WriteString("syntax = \"proto3\";\n")
		}
		if f.pkg != "" {
			fmt.Fprintf(b, "package %s;\n", f.pkg)
		}
		for _, j := range f.imports {
			if f.public[j] {
				fmt.Fprintf(b, "import public %q;\n", ws.files[j].path)
			} else {
				fmt.Fprintf(b, "import %q;\n", ws.files[j].path)
			}
		}
		anyVal := func() string {
			if len(visMsgs) > 0 && r.Chance(1, 2) {
				return fmt.Sprintf("{ a: { [type.googleapis.com/%s]: {} } }", hx.Pick(r, visMsgs))
			}
			if len(visMsgs) > 0 && r.Chance(1, 3) {
				return fmt.Sprintf("{ kids: [ { s: \"k\" }, { a: { [type.googleapis.com/%s]: {} } } ] }", hx.Pick(r, visMsgs))
			}
			return "{ s: \"v\" }"
		}
		if useOpts && r.Chance(1, 3) {
			if r.Bool() {
				b.WriteString("option (o.fopt) = \"f\";\n")
			} else {
				fmt.Fprintf(b, "option (o.fmsg) = %s;\n", anyVal())
			}
		}
		sk := skels[i]
		label := func() string {
			if f.proto2 {
				return hx.Pick(r, []string{"optional ", "optional ", "repeated "})
			}
			return hx.Pick(r, []string{"", "", "repeated ", "optional "})
		}
		fieldType := func() string {
			switch {
			case len(visMsgs) > 0 && r.Chance(2, 5):
				return "." + hx.Pick(r, visMsgs)
			case len(visEnums) > 0 && r.Chance(1, 4):
				return "." + hx.Pick(r, visEnums)
			}
			return hx.Pick(r, scalarTypes)
		}
		fieldOpt := func() string {
			if !useOpts || !r.Chance(1, 5) {
				return ""
			}
			if r.Bool() {
				return " [(o.dopt) = \"d\"]"
			}
			return fmt.Sprintf(" [(o.dmsg) = %s]", anyVal())
		}
		var writeMsg func(ind, scope, name string, sub, subE []string, top bool)
		writeMsg = func(ind, scope, name string, sub, subE []string, top bool) {
			full := qual(scope, name)
			fmt.Fprintf(b, "%s// c:%s\n%smessage %s {\n", ind, name, ind, name)
			in := ind + "  "
			if useOpts && r.Chance(1, 4) {
				switch r.Intn(3) {
				case 0:
					fmt.Fprintf(b, "%soption (o.mopt) = \"m\";\n", in)
				case 1:
					fmt.Fprintf(b, "%soption (o.mmsg) = %s;\n", in, anyVal())
				default:
					fmt.Fprintf(b, "%soption (o.menum) = OE1;\n", in)
				}
			}
			num := 1
			nf := r.Intn(5)
			isLeaf := typeByName[full] != nil && typeByName[full].leaf
			for k := 0; k < nf; k++ {
				fname := g.fresh("f")
				switch {
				case !isLeaf && r.Chance(1, 7):
					v := fieldType()
					fmt.Fprintf(b, "%s// c:%s\n%smap<string, %s> %s = %d%s;\n", in, fname, in, v, fname, num, fieldOpt())
				case !isLeaf && r.Chance(1, 6):
					oname := g.fresh("oo")
					fmt.Fprintf(b, "%s// c:%s\n%soneof %s {\n", in, oname, in, oname)
					if useOpts && r.Chance(1, 4) {
						fmt.Fprintf(b, "%s  option (o.oopt) = \"o\";\n", in)
					}
					for n := 1 + r.Intn(3); n > 0; n-- {
						fn := g.fresh("f")
						fmt.Fprintf(b, "%s  // c:%s\n%s  %s %s = %d%s;\n", in, fn, in, fieldType(), fn, num, fieldOpt())
						num++
					}
					fmt.Fprintf(b, "%s}\n", in)
				case !isLeaf && f.proto2 && r.Chance(1, 8):
					gname := g.fresh("G")
					fmt.Fprintf(b, "%s// c:%s\n%soptional group %s = %d {\n%s  optional %s %s = 1;\n%s}\n", in, gname, in, gname, num, in, fieldType(), g.fresh("f"), in)
					ws.names = append(ws.names, qual(full, gname))
				case isLeaf:
					fmt.Fprintf(b, "%s// c:%s\n%s%s%s %s = %d%s;\n", in, fname, in, label(), hx.Pick(r, scalarTypes), fname, num, fieldOpt())
				default:
					fmt.Fprintf(b, "%s// c:%s\n%s%s%s %s = %d%s;\n", in, fname, in, label(), fieldType(), fname, num, fieldOpt())
				}
				num++
			}
			if t := typeByName[full]; t != nil && t.extd {
				ro := ""
				if useOpts && r.Chance(1, 3) {
					ro = " [(o.ropt) = \"r\"]"
				}
				fmt.Fprintf(b, "%sextensions 100 to 199%s;\n", in, ro)
			}
			if r.Chance(1, 6) {
				fmt.Fprintf(b, "%sreserved 900 to 910;\n", in)
			}
			if top {
				for _, s := range sub {
					writeMsg(in, full, s, nil, nil, false)
				}
				for _, e := range subE {
					fmt.Fprintf(b, "%s// c:%s\n%senum %s { %s_0 = 0; %s_1 = 1; }\n", in, e, in, e, e, e)
				}
			}
			fmt.Fprintf(b, "%s}\n", ind)
			ws.names = append(ws.names, full)
		}
		for k, m := range sk.msgs {
			writeMsg("", f.pkg, m, sk.sub[k], sk.subE[k], true)
			for _, e := range sk.subE[k] {
				ws.names = append(ws.names, qual(f.pkg, m+"."+e))
			}
			f.nTypes++
		}
		for _, e := range sk.enums {
			eo, vo := "", ""
			if useOpts && r.Chance(1, 3) {
				eo = " option (o.eopt) = \"e\";"
			}
			if useOpts && r.Chance(1, 3) {
				vo = " [(o.vopt) = \"v\"]"
			}
			fmt.Fprintf(b, "// c:%s\nenum %s {%s\n  // c:%s_0\n  %s_0 = 0;\n  %s_1 = 1%s;\n}\n", e, e, eo, e, e, e, vo)
			ws.names = append(ws.names, qual(f.pkg, e))
			f.nTypes++
		}
		// services with shared request / response types
		if len(visMsgs) > 0 && r.Chance(1, 2) {
			sname := g.fresh("S")
			fmt.Fprintf(b, "// c:%s\nservice %s {\n", sname, sname)
			if useOpts && r.Chance(1, 3) {
				b.WriteString("  option (o.sopt) = \"s\";\n")
			}
			pool := []string{hx.Pick(r, visMsgs), hx.Pick(r, visMsgs), hx.Pick(r, visMsgs)}
			for n := 1 + r.Intn(3); n > 0; n-- {
				mn := g.fresh("Rpc")
				mo := ";"
				if useOpts && r.Chance(1, 4) {
					mo = fmt.Sprintf(" { option (o.tmsg) = %s; }", anyVal())
				}
				fmt.Fprintf(b, "  // c:%s\n  rpc %s(.%s) returns (.%s)%s\n", mn, mn, hx.Pick(r, pool), hx.Pick(r, pool), mo)
				ws.names = append(ws.names, qual(f.pkg, sname+"."+mn))
			}
			b.WriteString("}\n")
			ws.names = append(ws.names, qual(f.pkg, sname))
			f.nTypes++
		}
		// proto2: extensions of visible extendable messages.  Value types are scalars, enums or leaf
		// messages so that adding an extension never makes another extendable message explicit
		// (keeps addExtensions independent of Go's map iteration order; checked again in main.go).
		if f.proto2 {
			var extd []string
			for _, t := range ws.types {
				if vis[t.file] && t.extd {
					extd = append(extd, t.full)
				}
			}
			used := map[string]int{}
			for n := r.Intn(3); n > 0 && len(extd) > 0; n-- {
				target := hx.Pick(r, extd)
				xn := g.fresh("x")
				ty := hx.Pick(r, scalarTypes)
				if len(visLeaf) > 0 && r.Chance(1, 2) {
					ty = "." + hx.Pick(r, visLeaf)
				} else if len(visEnums) > 0 && r.Chance(1, 3) {
					ty = "." + hx.Pick(r, visEnums)
				}
				// extension numbers must be unique per extendee across the workspace
				used[target]++
				num := 100 + (g.ctr % 100)
				fmt.Fprintf(b, "extend .%s {\n  // c:%s\n  optional %s %s = %d%s;\n}\n", target, xn, ty, xn, num, fieldOpt())
				ws.names = append(ws.names, qual(f.pkg, xn))
				f.nTypes++
			}
		}
	}
	for p := range pkgSet {
		for p != "" {
			ws.names = append(ws.names, p)
			if i := strings.LastIndexByte(p, '.'); i >= 0 {
				p = p[:i]
			} else {
				p = ""
			}
		}
	}
	ws.names = append(ws.names, "")
	if ws.optsFile >= 0 {
		ws.names = append(ws.names, optsNames...)
	}
	sort.Strings(ws.names)
	ws.names = uniq(ws.names)
	ws.sources = [2]map[string]string{{}, {}}
	for i, f := range ws.files {
		if i < ws.nonTarget {
			ws.sources[1][f.path] = f.body.String()
		} else {
			ws.sources[0][f.path] = f.body.String()
		}
	}
	return ws
}

func uniq(xs []string) []string {
	var out []string
	for i, x := range xs {
		if i == 0 || xs[i-1] != x {
			out = append(out, x)
		}
	}
	return out
}

// Hand-written witnesses (run first): the three defects of DESIGN §7 row 9 and the further
// exclude families found while building the check.
type witness struct {
	name     string
	target   map[string]string
	imported map[string]string
	include  []string
	exclude  []string
}

var witnesses = []witness{
	{name: "9a-typeless-file",
		target: map[string]string{
			"a.proto": "syntax = \"proto3\"; package p;\n// c:X\nmessage X {}\n// c:Y\nmessage Y {}\n",
			"e.proto": "syntax = \"proto3\"; package e;\n"},
		exclude: []string{"p.X"}},
	{name: "9b-exclude-rpc-request",
		target: map[string]string{
			"a.proto": "syntax = \"proto3\"; package p;\nmessage X {}\nmessage Y {}\nservice S { rpc A(X) returns (Y); rpc B(Y) returns (X); rpc C(Y) returns (Y); }\n"},
		exclude: []string{"p.X"}},
	{name: "9b-exclude-rpc-response",
		target: map[string]string{
			"a.proto": "syntax = \"proto3\"; package p;\nmessage X {}\nmessage Y {}\nservice S { rpc A(X) returns (Y); rpc C(X) returns (X); }\n"},
		exclude: []string{"p.Y"}},
	{name: "9c-exclude-map-value",
		target: map[string]string{
			"a.proto": "syntax = \"proto3\"; package p;\nmessage X {}\nmessage Z { map<string, X> m = 1; int32 k = 2; }\n"},
		exclude: []string{"p.X"}},
	{name: "9d-oneof-index",
		target: map[string]string{
			"a.proto": "syntax = \"proto3\"; package p;\nmessage X {}\nmessage Y {}\nmessage A { oneof first { X x = 1; } oneof second { Y y = 2; int32 z = 3; } }\n"},
		include: []string{"p.A"}, exclude: []string{"p.X"}},
	{name: "9f-everything-excluded",
		target: map[string]string{
			"a.proto": "syntax = \"proto3\"; package p;\n// c:X\nmessage X {}\n"},
		exclude: []string{"p"}},
	{name: "9e-unvisited-import",
		target: map[string]string{
			"a.proto": "syntax = \"proto3\"; package p; import \"dep.proto\";\nmessage A { d.D1 x = 1; }\nmessage B {}\n"},
		imported: map[string]string{
			"dep.proto":   "syntax = \"proto3\"; package d; import \"other.proto\";\nmessage D1 {}\nmessage D2 { o.O o = 1; }\n",
			"other.proto": "syntax = \"proto3\"; package o;\nmessage O {}\n"},
		exclude: []string{"p.B"}},
}
