// Command c12 is the correspondence + oracle harness for property C12
// ("type filtering yields a self-contained, minimal, otherwise unchanged image").
//
// It compiles small generated .proto workspaces in-process with buf's own builder, runs
// bufimageutil.FilterImage with generated filters, and
//   - writes, per case, the abstract image + filter for the Lean model and the implementation's
//     canonical answer (error classes, or link verdict + kept elements per file, dependency
//     lists, remapped source locations with their comment tags);
//   - judges the implementation alone with the property oracle (oracle.go; optvalues.go for the
//     links clause at option-value level);
//   - plants custom options on elements that the filter drops (dropped.go; minimal.go is the oracle
//     clause "minimal", computed on the result image alone);
//   - runs the whole bufgen.Generator with several recording plugins that carry different
//     per-plugin types / exclude_types filters (generate.go, oracle only).
package main

import (
	"context"
	"errors"
	"fmt"
	"io"
	"log/slog"
	"os"
	"sort"
	"strings"

	"github.com/bufbuild/buf/private/bufpkg/bufimage"
	"github.com/bufbuild/buf/private/bufpkg/bufimage/bufimageutil"
	"github.com/bufbuild/buf/private/bufpkg/bufmodule"
	"github.com/bufbuild/buf/private/bufpkg/bufmodule/bufmoduletesting"
	"github.com/bufbuild/verifharness/internal/hx"
	"google.golang.org/protobuf/reflect/protodesc"
	"google.golang.org/protobuf/types/descriptorpb"
)

var ctx = context.Background()
var quiet = slog.New(slog.NewTextHandler(io.Discard, nil))

func buildImage(target, imported map[string]string) (img bufimage.Image, err error) {
	defer func() {
		if p := recover(); p != nil {
			err = fmt.Errorf("panic: %v", p)
		}
	}()
	conv := func(m map[string]string) map[string][]byte {
		r := map[string][]byte{}
		for k, v := range m {
			r[k] = []byte(v)
		}
		return r
	}
	mds := []bufmoduletesting.ModuleData{{PathToData: conv(target)}}
	if len(imported) > 0 {
		mds = append(mds, bufmoduletesting.ModuleData{PathToData: conv(imported), NotTargeted: true})
	}
	ms, err := bufmoduletesting.NewModuleSet(mds...)
	if err != nil {
		return nil, err
	}
	return bufimage.BuildImage(ctx, quiet, bufmodule.ModuleSetToModuleReadBucketWithOnlyProtoFiles(ms))
}

type filterSpec struct {
	Include       []string `json:"include"`
	Exclude       []string `json:"exclude"`
	NoCustomOpts  bool     `json:"exclude_custom_options"`
	NoKnownExts   bool     `json:"exclude_known_extensions"`
	AllowImported bool     `json:"allow_imported"`
	InPlace       bool     `json:"mutate_in_place"`
}

func (f filterSpec) options() []bufimageutil.ImageFilterOption {
	opts := []bufimageutil.ImageFilterOption{bufimageutil.WithIncludeTypes(f.Include...), bufimageutil.WithExcludeTypes(f.Exclude...)}
	if f.NoCustomOpts {
		opts = append(opts, bufimageutil.WithExcludeCustomOptions())
	}
	if f.NoKnownExts {
		opts = append(opts, bufimageutil.WithExcludeKnownExtensions())
	}
	if f.AllowImported {
		opts = append(opts, bufimageutil.WithAllowIncludeOfImportedType())
	}
	if f.InPlace {
		opts = append(opts, bufimageutil.WithMutateInPlace())
	}
	return opts
}

func errClass(err error) string {
	switch {
	case errors.Is(err, bufimageutil.ErrImageFilterTypeNotFound):
		return "notfound"
	case errors.Is(err, bufimageutil.ErrImageFilterTypeIsImport):
		return "isimport"
	}
	msg := err.Error()
	switch {
	case strings.Contains(msg, "inclusion of excluded") || strings.Contains(msg, "cannot include"):
		return "conflict"
	case strings.Contains(msg, "image contains no files"):
		return "empty"
	case strings.Contains(msg, "missing \""):
		return "missing"
	case strings.HasPrefix(msg, "panic"):
		return "panic"
	}
	return "internal"
}

// runFilter runs FilterImage on a private clone of the image (the filter may mutate it).
func runFilter(image bufimage.Image, f filterSpec) (out bufimage.Image, input bufimage.Image, err error) {
	defer func() {
		if p := recover(); p != nil {
			err = fmt.Errorf("panic: %v", p)
		}
	}()
	input, err = bufimage.CloneImage(image)
	if err != nil {
		return nil, nil, err
	}
	out, err = bufimageutil.FilterImage(input, f.options()...)
	return out, input, err
}

func genFilter(r *hx.Rand, ws *workspace) filterSpec {
	var f filterSpec
	pick := func() string {
		switch {
		case r.Chance(1, 30):
			return "p.Nope"
		case r.Chance(1, 40) && len(ws.names) > 0:
			return hx.Pick(r, ws.names) + ".f1" // a (probably missing) member name
		}
		return hx.Pick(r, ws.names)
	}
	ni, ne := 0, 0
	switch r.Intn(10) {
	case 0, 1, 2:
		ni = 1 + r.Intn(3)
	case 3, 4, 5, 6:
		ne = 1 + r.Intn(3)
	default:
		ni, ne = 1+r.Intn(2), 1+r.Intn(3)
	}
	seen := map[string]bool{}
	for i := 0; i < ni; i++ {
		n := pick()
		if !seen[n] {
			seen[n] = true
			f.Include = append(f.Include, n)
		}
	}
	for i := 0; i < ne; i++ {
		n := pick()
		if !seen[n] || r.Chance(1, 15) {
			if !contains(f.Exclude, n) {
				f.Exclude = append(f.Exclude, n)
			}
			seen[n] = true
		}
	}
	sort.Strings(f.Include)
	sort.Strings(f.Exclude)
	f.NoCustomOpts = r.Chance(1, 4)
	f.NoKnownExts = r.Chance(1, 4)
	f.AllowImported = r.Chance(1, 2)
	f.InPlace = r.Bool()
	return f
}

func contains(xs []string, s string) bool {
	for _, x := range xs {
		if x == s {
			return true
		}
	}
	return false
}

type caseInput struct {
	Name     string            `json:"name,omitempty"`
	Target   map[string]string `json:"target_module"`
	Imported map[string]string `json:"non_target_module,omitempty"`
	Filter   filterSpec        `json:"filter"`
}

// oneCase runs one (image, filter) pair: correspondence line + oracle.
func oneCase(run *hx.Run, image bufimage.Image, pre *prepared, in caseInput, replay string, oracleOnly bool) {
	f := in.Filter
	n := pre.names
	nameIDs := func(xs []string) []int {
		out := make([]int, len(xs))
		for i, x := range xs {
			out[i] = n.id(x)
		}
		return out
	}
	// names first (they may intern new ids that the image S-expression does not need)
	inc, exc := nameIDs(f.Include), nameIDs(f.Exclude)
	optsS := par(ints(inc), ints(exc), b2s(!f.NoCustomOpts), b2s(!f.NoKnownExts), b2s(f.AllowImported))
	line := "f\t" + pre.sexp + "\t" + optsS

	// Include order dependence of the implementation (Go map order): an option extension that is
	// included by name makes its extendee (google.protobuf.*Options) *explicit* — and addExtensions
	// then pulls in every other custom option of that kind — only if it is visited before another
	// include whose closure uses the option (which makes the extendee merely implicit, and the later
	// upgrade of the extension does not re-walk it).  Such filters have no single expected answer:
	// they are counted, judged by the order-insensitive oracle clauses, and not compared line by line.
	orderDependent := oracleOnly
	if len(f.Include) > 1 {
		for _, i := range f.Include {
			if e, ok := pre.elems[i]; ok && e.kind == "ext" {
				if fd, isField := e.desc.(*descriptorpb.FieldDescriptorProto); isField &&
					strings.HasPrefix(fd.GetExtendee(), ".google.protobuf.") && strings.HasSuffix(fd.GetExtendee(), "Options") {
					orderDependent = true
				}
			}
		}
	}
	lazyOpt := false
	if !orderDependent && lazilyExcludedOption(image, pre, f) {
		orderDependent, lazyOpt = true, true
	}
	out, input, err := runFilter(image, f)
	var answer string
	if err != nil {
		classes := map[string]bool{}
		for _, i := range f.Include {
			g := f
			g.Include = []string{i}
			if _, _, e := runFilter(image, g); e != nil {
				classes[errClass(e)] = true
			}
		}
		if len(classes) == 0 {
			classes[errClass(err)] = true
		}
		var cs []string
		for c := range classes {
			cs = append(cs, c)
		}
		sort.Strings(cs)
		answer = "err\t" + strings.Join(cs, ",")
		run.Count("result:err:" + strings.Join(cs, ","))
	} else {
		_, linkErr := protodesc.NewFiles(bufimage.ImageToFileDescriptorSet(out))
		if run.Only >= 0 {
			fmt.Printf("filter=%+v linkErr=%v\n", f, linkErr)
			for _, of := range out.Files() {
				var xs []string
				for _, x := range of.FileDescriptorProto().Extension {
					xs = append(xs, x.GetName())
				}
				fmt.Printf("   out %s deps=%v extensions=%v\n", of.Path(), of.FileDescriptorProto().Dependency, xs)
			}
		}
		rs, rerr := resultSexp(out, n)
		if rerr != nil {
			run.Fail(hx.OracleFailure{Class: "result-has-foreign-element", What: rerr.Error(), Input: in, Replay: replay})
		}
		answer = "ok\t" + b2s(linkErr == nil) + "\t" + rs
		run.Count("result:ok")
		run.Count(fmt.Sprintf("result-files:%d", len(out.Files())))
	}
	kind := "include+exclude"
	switch {
	case len(f.Include) == 0:
		kind = "exclude-only"
	case len(f.Exclude) == 0:
		kind = "include-only"
	}
	run.Count("filter:" + kind)
	if f.InPlace {
		run.Count("mode:in-place")
	} else {
		run.Count("mode:copy")
	}
	if oracleOnly {
		run.Count("filter:addExtensions-order-dependent-workspace(oracle only)")
		run.Eval()
	} else if lazyOpt {
		run.Count("filter:lazily-excluded-option-map-order-dependent(not compared line by line)")
		run.Eval()
	} else if orderDependent {
		run.Count("filter:include-order-dependent(not compared line by line)")
		run.Eval()
	} else {
		run.Case(line, answer, err == nil && len(out.Files()) > 0)
		run.Sample(map[string]any{"filter": f, "answer_prefix": truncate(answer, 160)})
	}
	oracle(run, image, pre, in, out, input, err, replay, orderDependent, oracleOnly)
}

// lazilyExcludedOption: a second source of map-order dependence.  A custom option whose extendee
// (google.protobuf.*Options) or value type is excluded is only MARKED excluded when the closure
// first meets a use of it - after that first use's value has been walked for Any payloads
// (exploreCustomOptions: hasOption(unknown) = true, exploreOptionValueForAny, then addElement marks
// the extension excluded).  Later uses are skipped.  Which use comes first depends on Go map
// iteration: the order of the includes, and - even with a single include or none - the order in
// which options.Range yields two such options set on ONE element (the walk of the first one's Any
// payloads may reach, and thereby consume, the first use of the second).  The set of Any payload
// types kept then has no single expected answer: counted, judged by the order-insensitive oracle
// clauses, not compared line by line.
func lazilyExcludedOption(image bufimage.Image, pre *prepared, f filterSpec) bool {
	pkgOf := map[string]string{}
	for _, fl := range image.Files() {
		pkgOf[fl.Path()] = fl.FileDescriptorProto().GetPackage()
	}
	excluded := func(name string) bool {
		e, ok := pre.elems[name]
		if !ok {
			return false
		}
		for _, x := range f.Exclude {
			if _, isElem := pre.elems[x]; isElem {
				if name == x || strings.HasPrefix(name, x+".") {
					return true
				}
			} else if pkgOf[e.file] == x {
				return true
			}
		}
		return false
	}
	for name, e := range pre.elems {
		if e.kind != "ext" || excluded(name) {
			continue
		}
		fd := e.desc.(*descriptorpb.FieldDescriptorProto)
		if !strings.HasPrefix(fd.GetExtendee(), ".google.protobuf.") || !strings.HasSuffix(fd.GetExtendee(), "Options") {
			continue
		}
		if excluded(trimDot(fd.GetExtendee())) || (fd.TypeName != nil && excluded(trimDot(fd.GetTypeName()))) {
			return true
		}
	}
	return false
}

func truncate(s string, n int) string {
	if len(s) > n {
		return s[:n] + "…"
	}
	return s
}

type prepared struct {
	names     *names
	elems     map[string]elemInfo
	fileTypes map[string][]string
	sexp      string
	resolved  *resolvedImage // options of the input image re-resolved against the image itself (lazily)
}

func (p *prepared) resolvedInput(image bufimage.Image) *resolvedImage {
	if p.resolved == nil {
		p.resolved = resolveImage(image)
	}
	return p.resolved
}

func prepare(image bufimage.Image) *prepared {
	p := &prepared{names: newNames(image)}
	p.elems, p.fileTypes = indexImage(image)
	p.sexp = imageSexp(image, p.names, p.elems, p.fileTypes)
	return p
}

func main() {
	if len(os.Args) > 1 && os.Args[1] == "--as-plugin" {
		pluginMain()
		return
	}
	run := hx.Start("C12")
	defer run.Finish()
	r := hx.NewRand(run.Seed)

	// 1. witnesses of the recorded defects (always first; they are the corpus of this property)
	for wi, w := range witnesses {
		if run.Only >= 0 && run.Only != wi {
			continue
		}
		image, err := buildImage(w.target, w.imported)
		if err != nil {
			panic(fmt.Sprintf("witness %s does not compile: %v", w.name, err))
		}
		pre := prepare(image)
		for _, inPlace := range []bool{false, true} {
			in := caseInput{Name: w.name, Target: w.target, Imported: w.imported, Filter: filterSpec{Include: w.include, Exclude: w.exclude, InPlace: inPlace}}
			run.Count("witness")
			oneCase(run, image, pre, in, fmt.Sprintf("build/c12 --seed %d --tier %s --out /tmp/c12-replay --only %d   # witness %s", run.Seed, run.Tier, wi, w.name), false)
		}
	}

	// 2. generated workspaces x generated filters
	nWorkspaces := run.N(300, 1600) // thorough: 2 seeds x (1600 x 8 lines of ~20 KB) stays under the 15 min / 200 MB budget
	filtersPer := 8
	for wi := 0; wi < nWorkspaces; wi++ {
		idx := len(witnesses) + wi
		if run.Only >= 0 && run.Only != idx {
			continue
		}
		wr := r.Fork(uint64(wi))
		ws := generateWorkspace(wr)
		image, err := buildImage(ws.sources[0], ws.sources[1])
		if err != nil {
			run.Count("gen:compile-failed")
			if run.Only >= 0 {
				fmt.Println("compile failed:", err)
			}
			continue
		}
		if run.Only >= 0 {
			for i, m := range ws.sources {
				for k, v := range m {
					fmt.Printf("== module %d %s\n%s\n", i, k, v)
				}
			}
		}
		run.Count("gen:compiled")
		run.Count(fmt.Sprintf("gen:files:%d", len(image.Files())))
		if ws.nonTarget > 0 {
			run.Count("gen:with-non-target-module")
		}
		pre := prepare(image)
		oracleOnly := false
		if !extensionsOrderIndependent(image, pre) {
			// addExtensions ranges over a Go map while inserting into it: whether a message that
			// becomes explicit during the loop gets its own extensions is unspecified.  Such
			// workspaces (every workspace with the extendable option message o.OptX is one) are not
			// compared line by line; the order-insensitive oracle clauses still judge them.
			run.Count("gen:addExtensions-order-dependent(oracle only)")
			oracleOnly = true
		}
		for k, v := range ws.optStats {
			run.CountN(k, v)
		}
		for fi := 0; fi < filtersPer; fi++ {
			f := genFilter(wr, ws)
			in := caseInput{Target: ws.sources[0], Imported: ws.sources[1], Filter: f}
			oneCase(run, image, pre, in, fmt.Sprintf("build/c12 --seed %d --tier %s --out /tmp/c12-replay --only %d   # filter %d of that workspace", run.Seed, run.Tier, idx, fi), oracleOnly)
		}
	}

	// 3. custom options on elements that the filter drops (dropped.go)
	sectionDropped(run, r.Fork(0x64726f70))

	// 4. whole `buf generate` runs with per-plugin types / exclude_types (generate.go)
	sectionGenerate(run, r.Fork(0x67656e))
}
