package main

// Image -> abstract image of the Lean model (S-expression over interned names), and filtered
// image -> canonical answer.  This is the trusted translator of the correspondence leg.

import (
	"fmt"
	"sort"
	"strconv"
	"strings"

	"github.com/bufbuild/buf/private/bufpkg/bufimage"
	"github.com/bufbuild/protocompile/walk"
	"google.golang.org/protobuf/proto"
	"google.golang.org/protobuf/reflect/protoreflect"
	"google.golang.org/protobuf/types/descriptorpb"
)

type names struct {
	ids     map[string]int
	list    []string
	fileIDs map[string]int
	tags    map[string]int // interned comment triples
}

func newNames(image bufimage.Image) *names {
	n := &names{ids: map[string]int{}, fileIDs: map[string]int{}, tags: map[string]int{}}
	var paths []string
	for _, f := range image.Files() {
		paths = append(paths, f.Path())
	}
	sort.Strings(paths)
	for i, p := range paths {
		n.fileIDs[p] = i + 1
	}
	return n
}

func (n *names) id(s string) int {
	if v, ok := n.ids[s]; ok {
		return v
	}
	v := len(n.list) + 1
	n.ids[s] = v
	n.list = append(n.list, s)
	return v
}

func (n *names) tag(l *descriptorpb.SourceCodeInfo_Location) int {
	if l.LeadingComments == nil && l.TrailingComments == nil && len(l.LeadingDetachedComments) == 0 {
		return 0
	}
	key := l.GetLeadingComments() + "\x00" + l.GetTrailingComments() + "\x00" + strings.Join(l.LeadingDetachedComments, "\x01")
	if v, ok := n.tags[key]; ok {
		return v
	}
	v := len(n.tags) + 1
	n.tags[key] = v
	return v
}

func par(xs ...string) string { return "(" + strings.Join(xs, " ") + ")" }

func ints(xs []int) string {
	ss := make([]string, len(xs))
	for i, x := range xs {
		ss[i] = strconv.Itoa(x)
	}
	return par(ss...)
}

func trimDot(s string) string { return strings.TrimPrefix(s, ".") }

// elemKinds maps every indexed element name of the image to its kind (as image_index.go indexes).
type elemInfo struct {
	kind string // msg enum svc method ext
	file string
	desc proto.Message
}

func indexImage(image bufimage.Image) (map[string]elemInfo, map[string][]string) {
	elems := map[string]elemInfo{}
	fileTypes := map[string][]string{}
	for _, f := range image.Files() {
		fd := f.FileDescriptorProto()
		_ = walk.DescriptorProtos(fd, func(name protoreflect.FullName, msg proto.Message) error {
			kind := ""
			switch d := msg.(type) {
			case *descriptorpb.DescriptorProto:
				kind = "msg"
			case *descriptorpb.EnumDescriptorProto:
				kind = "enum"
			case *descriptorpb.ServiceDescriptorProto:
				kind = "svc"
			case *descriptorpb.MethodDescriptorProto:
				kind = "method"
			case *descriptorpb.FieldDescriptorProto:
				if d.Extendee != nil {
					kind = "ext"
				}
			}
			if kind != "" {
				elems[string(name)] = elemInfo{kind: kind, file: f.Path(), desc: msg}
				fileTypes[f.Path()] = append(fileTypes[f.Path()], string(name))
			}
			return nil
		})
	}
	return elems, fileTypes
}

type extractor struct {
	n     *names
	elems map[string]elemInfo
}

// anyPayloads mirrors what the closure can find: message types named by Any values nested
// anywhere inside an option value.
func (x *extractor) anyPayloads(fd protoreflect.FieldDescriptor, val protoreflect.Value, out *[]int) {
	isMsg := func(k protoreflect.Kind) bool { return k == protoreflect.MessageKind || k == protoreflect.GroupKind }
	switch {
	case fd.IsMap():
		if isMsg(fd.MapValue().Kind()) {
			var keys []string
			m := map[string]protoreflect.Message{}
			val.Map().Range(func(k protoreflect.MapKey, v protoreflect.Value) bool {
				keys = append(keys, k.String())
				m[k.String()] = v.Message()
				return true
			})
			sort.Strings(keys)
			for _, k := range keys {
				x.anyInMsg(m[k], out)
			}
		}
	case isMsg(fd.Kind()):
		if fd.IsList() {
			l := val.List()
			for i := 0; i < l.Len(); i++ {
				x.anyInMsg(l.Get(i).Message(), out)
			}
		} else {
			x.anyInMsg(val.Message(), out)
		}
	}
}

func (x *extractor) anyInMsg(msg protoreflect.Message, out *[]int) {
	md := msg.Descriptor()
	if md.FullName() == "google.protobuf.Any" {
		url := msg.Get(md.Fields().ByNumber(1)).String()
		name := url[strings.LastIndexByte(url, '/')+1:]
		if e, ok := x.elems[name]; ok && e.kind == "msg" {
			*out = append(*out, x.n.id(name))
		}
		return
	}
	type fv struct {
		fd protoreflect.FieldDescriptor
		v  protoreflect.Value
	}
	var fvs []fv
	msg.Range(func(fd protoreflect.FieldDescriptor, v protoreflect.Value) bool {
		fvs = append(fvs, fv{fd, v})
		return true
	})
	sort.Slice(fvs, func(i, j int) bool { return fvs[i].fd.Number() < fvs[j].fd.Number() })
	for _, e := range fvs {
		x.anyPayloads(e.fd, e.v, out)
	}
}

func (x *extractor) opts(options proto.Message) string {
	if options == nil || !options.ProtoReflect().IsValid() {
		return "()"
	}
	type use struct {
		num int
		s   string
	}
	var uses []use
	options.ProtoReflect().Range(func(fd protoreflect.FieldDescriptor, v protoreflect.Value) bool {
		if !fd.IsExtension() {
			return true
		}
		ext := 0
		if e, ok := x.elems[string(fd.FullName())]; ok && e.kind == "ext" {
			ext = x.n.id(string(fd.FullName())) + 1
		}
		var anys []int
		x.anyPayloads(fd, v, &anys)
		uses = append(uses, use{int(fd.Number()), par(strconv.Itoa(ext), ints(anys))})
		return true
	})
	sort.Slice(uses, func(i, j int) bool { return uses[i].num < uses[j].num })
	ss := make([]string, len(uses))
	for i, u := range uses {
		ss[i] = u.s
	}
	return par(ss...)
}

func optOrNil[T proto.Message](o T, isNil bool) proto.Message {
	if isNil {
		return nil
	}
	return o
}

func (x *extractor) field(scope string, f *descriptorpb.FieldDescriptorProto) string {
	ty, oo, ex := 0, 0, 0
	switch f.GetType() {
	case descriptorpb.FieldDescriptorProto_TYPE_MESSAGE, descriptorpb.FieldDescriptorProto_TYPE_ENUM, descriptorpb.FieldDescriptorProto_TYPE_GROUP:
		ty = x.n.id(trimDot(f.GetTypeName())) + 1
	}
	if f.OneofIndex != nil {
		oo = int(f.GetOneofIndex()) + 1
	}
	if f.Extendee != nil {
		ex = x.n.id(trimDot(f.GetExtendee())) + 1
	}
	return par(strconv.Itoa(x.n.id(qualName(scope, f.GetName()))), strconv.Itoa(ty), strconv.Itoa(oo), strconv.Itoa(ex),
		x.opts(optOrNil(f.Options, f.Options == nil)))
}

func qualName(scope, name string) string {
	if scope == "" {
		return name
	}
	return scope + "." + name
}

func (x *extractor) enum(scope string, e *descriptorpb.EnumDescriptorProto) string {
	vs := make([]string, len(e.Value))
	for i, v := range e.Value {
		vs[i] = x.opts(optOrNil(v.Options, v.Options == nil))
	}
	return par(strconv.Itoa(x.n.id(qualName(scope, e.GetName()))), par(vs...), x.opts(optOrNil(e.Options, e.Options == nil)))
}

func mapS[T any](xs []T, f func(T) string) string {
	ss := make([]string, len(xs))
	for i, v := range xs {
		ss[i] = f(v)
	}
	return par(ss...)
}

func b2s(b bool) string {
	if b {
		return "1"
	}
	return "0"
}

func (x *extractor) msg(scope string, m *descriptorpb.DescriptorProto) string {
	full := qualName(scope, m.GetName())
	return par(strconv.Itoa(x.n.id(full)),
		mapS(m.Field, func(f *descriptorpb.FieldDescriptorProto) string { return x.field(full, f) }),
		mapS(m.OneofDecl, func(o *descriptorpb.OneofDescriptorProto) string {
			return par(x.opts(optOrNil(o.Options, o.Options == nil)))
		}),
		mapS(m.Extension, func(f *descriptorpb.FieldDescriptorProto) string { return x.field(full, f) }),
		mapS(m.NestedType, func(n *descriptorpb.DescriptorProto) string { return x.msg(full, n) }),
		mapS(m.EnumType, func(e *descriptorpb.EnumDescriptorProto) string { return x.enum(full, e) }),
		mapS(m.ExtensionRange, func(r *descriptorpb.DescriptorProto_ExtensionRange) string {
			return x.opts(optOrNil(r.Options, r.Options == nil))
		}),
		b2s(len(m.ReservedRange) > 0 || len(m.ReservedName) > 0),
		b2s(m.GetOptions().GetMapEntry()),
		x.opts(optOrNil(m.Options, m.Options == nil)))
}

func (x *extractor) file(f bufimage.ImageFile, fileTypes []string) string {
	fd := f.FileDescriptorProto()
	pkg := fd.GetPackage()
	pub := map[int]bool{}
	for _, i := range fd.PublicDependency {
		pub[int(i)] = true
	}
	deps := make([]string, len(fd.Dependency))
	for i, d := range fd.Dependency {
		deps[i] = par(strconv.Itoa(x.n.fileIDs[d]), b2s(pub[i]))
	}
	tys := make([]int, len(fileTypes))
	for i, t := range fileTypes {
		tys[i] = x.n.id(t)
	}
	return par(strconv.Itoa(x.n.fileIDs[f.Path()]), strconv.Itoa(x.n.id(pkg)), b2s(f.IsImport()), par(deps...), ints(tys),
		mapS(fd.MessageType, func(m *descriptorpb.DescriptorProto) string { return x.msg(pkg, m) }),
		mapS(fd.EnumType, func(e *descriptorpb.EnumDescriptorProto) string { return x.enum(pkg, e) }),
		mapS(fd.Service, func(s *descriptorpb.ServiceDescriptorProto) string {
			sfull := qualName(pkg, s.GetName())
			return par(strconv.Itoa(x.n.id(sfull)),
				mapS(s.Method, func(m *descriptorpb.MethodDescriptorProto) string {
					return par(strconv.Itoa(x.n.id(qualName(sfull, m.GetName()))), strconv.Itoa(x.n.id(trimDot(m.GetInputType()))),
						strconv.Itoa(x.n.id(trimDot(m.GetOutputType()))), x.opts(optOrNil(m.Options, m.Options == nil)))
				}), x.opts(optOrNil(s.Options, s.Options == nil)))
		}),
		mapS(fd.Extension, func(f *descriptorpb.FieldDescriptorProto) string { return x.field(pkg, f) }),
		x.opts(optOrNil(fd.Options, fd.Options == nil)),
		mapS(fd.GetSourceCodeInfo().GetLocation(), func(l *descriptorpb.SourceCodeInfo_Location) string {
			p := make([]int, len(l.Path))
			for i, v := range l.Path {
				p[i] = int(v)
			}
			return par(ints(p), strconv.Itoa(x.n.tag(l)))
		}))
}

// imageSexp returns the model's input image.
func imageSexp(image bufimage.Image, n *names, elems map[string]elemInfo, fileTypes map[string][]string) string {
	x := &extractor{n: n, elems: elems}
	files := make([]string, 0, len(image.Files()))
	pkgSet := map[string]bool{"": true}
	for _, f := range image.Files() {
		files = append(files, x.file(f, fileTypes[f.Path()]))
		p := f.FileDescriptorProto().GetPackage()
		for p != "" {
			pkgSet[p] = true
			if i := strings.LastIndexByte(p, '.'); i >= 0 {
				p = p[:i]
			} else {
				p = ""
			}
		}
	}
	var pkgs []string
	for p := range pkgSet {
		pkgs = append(pkgs, p)
	}
	sort.Strings(pkgs)
	pk := make([]int, len(pkgs))
	for i, p := range pkgs {
		pk[i] = n.id(p)
	}
	return par(par(files...), ints(pk))
}

// resultSexp renders a filtered image in the answer format of Driver/C12.lean.
func resultSexp(image bufimage.Image, n *names) (string, error) {
	known := func(s string) (int, error) {
		if v, ok := n.ids[s]; ok {
			return v, nil
		}
		return 0, fmt.Errorf("result names %q which the input image does not have", s)
	}
	var firstErr error
	id := func(s string) string {
		v, err := known(s)
		if err != nil && firstErr == nil {
			firstErr = err
		}
		return strconv.Itoa(v)
	}
	var rmsg func(scope string, m *descriptorpb.DescriptorProto) string
	rmsg = func(scope string, m *descriptorpb.DescriptorProto) string {
		full := qualName(scope, m.GetName())
		return par(id(full),
			mapS(m.Field, func(f *descriptorpb.FieldDescriptorProto) string {
				oo := 0
				if f.OneofIndex != nil {
					oo = int(f.GetOneofIndex()) + 1
				}
				return par(id(qualName(full, f.GetName())), strconv.Itoa(oo))
			}),
			strconv.Itoa(len(m.OneofDecl)),
			mapS(m.Extension, func(f *descriptorpb.FieldDescriptorProto) string { return id(qualName(full, f.GetName())) }),
			mapS(m.NestedType, func(x *descriptorpb.DescriptorProto) string { return rmsg(full, x) }),
			mapS(m.EnumType, func(e *descriptorpb.EnumDescriptorProto) string { return id(qualName(full, e.GetName())) }))
	}
	files := make([]string, 0, len(image.Files()))
	for _, f := range image.Files() {
		fd := f.FileDescriptorProto()
		pkg := fd.GetPackage()
		deps := make([]int, len(fd.Dependency))
		for i, d := range fd.Dependency {
			deps[i] = n.fileIDs[d]
		}
		if len(fd.PublicDependency) > 0 {
			deps = append(deps, -1) // the model never keeps public dependencies
		}
		files = append(files, par(strconv.Itoa(n.fileIDs[f.Path()]), ints(deps),
			mapS(fd.MessageType, func(m *descriptorpb.DescriptorProto) string { return rmsg(pkg, m) }),
			mapS(fd.EnumType, func(e *descriptorpb.EnumDescriptorProto) string { return id(qualName(pkg, e.GetName())) }),
			mapS(fd.Service, func(s *descriptorpb.ServiceDescriptorProto) string {
				sfull := qualName(pkg, s.GetName())
				return par(id(sfull), mapS(s.Method, func(m *descriptorpb.MethodDescriptorProto) string { return id(qualName(sfull, m.GetName())) }))
			}),
			mapS(fd.Extension, func(f *descriptorpb.FieldDescriptorProto) string { return id(qualName(pkg, f.GetName())) }),
			mapS(fd.GetSourceCodeInfo().GetLocation(), func(l *descriptorpb.SourceCodeInfo_Location) string {
				p := make([]int, len(l.Path))
				for i, v := range l.Path {
					p[i] = int(v)
				}
				return par(ints(p), strconv.Itoa(n.tag(l)))
			})))
	}
	return par(files...), firstErr
}
