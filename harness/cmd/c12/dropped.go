package main

// Section D: custom options on elements that the filter DROPS.
//
// The filter drops more than what is excluded by name: a field whose type is excluded, a oneof that
// loses all its members, a method whose request or response type is excluded, an extension whose
// extendee or value type is excluded, nested / top-level declarations excluded inside an included
// message / package, the fields of a message that is kept as a namespace only.  Whatever such an
// element carries must not be followed: a custom option set on it must not pull its extension
// definition, google.protobuf.*Options, the option's value type, the messages named by Any payloads
// in the value, or the imports of their files into the result (property: the result is MINIMAL, and
// filtering twice equals filtering once).
//
// Every workspace here plants 1-3 such elements ("plants", 18 kinds), each with 1-5 custom options
// (on the element and on its parts) whose definitions live in a file of their own (od<i>.proto) that
// NOTHING else uses, with values of 7 kinds (scalar, enum, message, repeated message, Any payload in
// expanded and in plain type_url form, an Any in a list inside the value; the payload message lives
// in pay<i>.proto, used by nothing else), next to a control element whose option survives.  Each
// workspace is filtered three ways: include the host elements + exclude the victims, include the
// package + exclude the victims, exclude-only (then the option files sit in the non-target module so
// that they can disappear).  Every case goes through the model comparison and the whole oracle like
// the generated cases of section 2 (minimal.go holds the clause that speaks about this family).

import (
	"fmt"
	"sort"
	"strings"

	"github.com/bufbuild/verifharness/internal/hx"
)

var dPlantKinds = []string{
	"field-message-type", "field-enum-type", "oneof-all-members", "oneof-one-member", "proto3-optional-field",
	"method-request-type", "method-response-type", "nested-message-excluded", "nested-enum-excluded",
	"extension-value-type", "extension-extendee", "namespace-only-parent", "namespace-only-parent-proto2",
	"toplevel-message-excluded", "toplevel-enum-excluded", "service-excluded", "method-excluded-by-name",
	"package-excluded",
}

var dValueKinds = []string{"scalar", "enum", "message", "repeated", "any-expanded", "any-plain-url", "any-in-list"}

var dSiteOptions = map[string]string{
	"file": "FileOptions", "msg": "MessageOptions", "field": "FieldOptions", "oneof": "OneofOptions", "enum": "EnumOptions",
	"value": "EnumValueOptions", "svc": "ServiceOptions", "method": "MethodOptions", "range": "ExtensionRangeOptions",
}

type dOd struct {
	idx     int
	decls   []string
	usesPay bool
}

type dBuilder struct {
	r          *hx.Rand
	a, x       strings.Builder // bodies of a.proto (proto3) and x.proto (proto2), both package p
	imports    map[string]map[string]bool
	others     map[string]string // w<i>.proto
	ods        []*dOd
	cur        *dOd
	fixedValue string // "" = random per option
	include    []string
	exclude    []string
	counts     map[string]int
	usesX      bool
}

func (b *dBuilder) imp(file, dep string) {
	if b.imports[file] == nil {
		b.imports[file] = map[string]bool{}
	}
	b.imports[file][dep] = true
}

// newOd starts a fresh option-definition file; the options of one plant share it.
func (b *dBuilder) newOd() {
	b.cur = &dOd{idx: len(b.ods) + 1}
	b.ods = append(b.ods, b.cur)
}

// opt declares one custom option for `site` in the current od file and returns its assignments
// ("(od1.field_2) = { ... }"; two for a repeated option), to be used in file `user`.
func (b *dBuilder) opt(site, user string) []string {
	od := b.cur
	vk := b.fixedValue
	if vk == "" {
		vk = hx.Pick(b.r, dValueKinds)
	}
	b.counts["D:option:"+site+":"+vk]++
	n := len(od.decls) + 1
	name := fmt.Sprintf("%s_%d", site, n)
	ty, label := "Tag", "optional"
	var vals []string
	pay := fmt.Sprintf("pay%d.P", od.idx)
	switch vk {
	case "scalar":
		ty, vals = "string", []string{`"v"`}
	case "enum":
		ty, vals = "E", []string{"E1"}
	case "message":
		vals = []string{`{ name: "n" }`}
	case "repeated":
		label, vals = "repeated", []string{`{ name: "n1" }`, `{ name: "n2" kids: [ { name: "k" } ] }`}
	case "any-expanded":
		od.usesPay = true
		vals = []string{fmt.Sprintf(`{ a: { [type.googleapis.com/%s]: { q: 1 } } }`, pay)}
	case "any-plain-url":
		od.usesPay = true
		vals = []string{fmt.Sprintf(`{ a: { type_url: "example.com/x/%s" } }`, pay)}
	case "any-in-list":
		od.usesPay = true
		label, vals = "repeated", []string{fmt.Sprintf(`{ kids: [ { name: "k" }, { a: { [type.googleprod.com/%s]: {} } } ] }`, pay)}
	}
	od.decls = append(od.decls, fmt.Sprintf("extend google.protobuf.%s {\n  // c:%s\n  %s %s %s = %d;\n}\n", dSiteOptions[site], name, label, ty, name, 50000+40*od.idx+n))
	b.imp(user, fmt.Sprintf("od%d.proto", od.idx))
	if od.usesPay {
		b.imp(user, fmt.Sprintf("pay%d.proto", od.idx))
	}
	var out []string
	for _, v := range vals {
		out = append(out, fmt.Sprintf("(od%d.%s) = %s", od.idx, name, v))
	}
	return out
}

func (b *dBuilder) compact(site, user string) string {
	return " [" + strings.Join(b.opt(site, user), ", ") + "]"
}

func (b *dBuilder) stmt(ind, site, user string) string {
	var sb strings.Builder
	for _, a := range b.opt(site, user) {
		fmt.Fprintf(&sb, "%soption %s;\n", ind, a)
	}
	return sb.String()
}

func (b *dBuilder) plant(kind string, i int) {
	b.counts["D:plant:"+kind]++
	b.newOd()
	a, x := &b.a, &b.x
	A := "a.proto"
	X := "x.proto"
	inc := func(n string) { b.include = append(b.include, n) }
	exc := func(n string) {
		if !contains(b.exclude, n) {
			b.exclude = append(b.exclude, n)
		}
	}
	switch kind {
	case "field-message-type":
		b.imp(A, "v.proto")
		fmt.Fprintf(a, "// c:A%d\nmessage A%d {\n  string id = 1;\n  // c:x\n  .v.X x = 2%s;\n}\n", i, i, b.compact("field", A))
		inc(fmt.Sprintf("p.A%d", i))
		exc("v.X")
	case "field-enum-type":
		b.imp(A, "v.proto")
		fmt.Fprintf(a, "// c:A%d\nmessage A%d {\n  string id = 1;\n  repeated .v.XE x = 2%s;\n}\n", i, i, b.compact("field", A))
		inc(fmt.Sprintf("p.A%d", i))
		exc("v.XE")
	case "oneof-all-members":
		b.imp(A, "v.proto")
		fmt.Fprintf(a, "message A%d {\n  string id = 1;\n  // c:o\n  oneof o {\n%s    .v.X x = 2%s;\n    .v.XE y = 3;\n  }\n  int32 tail = 4;\n}\n", i, b.stmt("    ", "oneof", A), b.compact("field", A))
		inc(fmt.Sprintf("p.A%d", i))
		exc("v.X")
		exc("v.XE")
	case "oneof-one-member":
		b.imp(A, "v.proto")
		fmt.Fprintf(a, "message A%d {\n  string id = 1;\n  oneof o {\n    string keep = 2;\n    .v.X x = 3%s;\n  }\n}\n", i, b.compact("field", A))
		inc(fmt.Sprintf("p.A%d", i))
		exc("v.X")
	case "proto3-optional-field":
		b.imp(A, "v.proto")
		fmt.Fprintf(a, "message A%d {\n  optional string id = 1;\n  optional .v.X x = 2%s;\n  optional int32 z = 3;\n}\n", i, b.compact("field", A))
		inc(fmt.Sprintf("p.A%d", i))
		exc("v.X")
	case "method-request-type", "method-response-type":
		b.imp(A, "v.proto")
		in, out := ".v.X", fmt.Sprintf("Rs%d", i)
		if kind == "method-response-type" {
			in, out = fmt.Sprintf("Rq%d", i), ".v.X"
		}
		fmt.Fprintf(a, "message Rq%d {}\nmessage Rs%d {}\n// c:S%d\nservice S%d {\n  rpc Keep(Rq%d) returns (Rs%d);\n  // c:Drop\n  rpc Drop(%s) returns (%s) {\n%s  }\n}\n",
			i, i, i, i, i, i, in, out, b.stmt("    ", "method", A))
		inc(fmt.Sprintf("p.S%d", i))
		exc("v.X")
	case "nested-message-excluded":
		fmt.Fprintf(a, "message A%d {\n  string id = 1;\n  N n = 2%s;\n  // c:N\n  message N {\n%s    string t = 1%s;\n    enum NE {\n%s      NE%d_0 = 0%s;\n    }\n  }\n}\n",
			i, b.compact("field", A), b.stmt("    ", "msg", A), b.compact("field", A), b.stmt("      ", "enum", A), i, b.compact("value", A))
		inc(fmt.Sprintf("p.A%d", i))
		exc(fmt.Sprintf("p.A%d.N", i))
	case "nested-enum-excluded":
		fmt.Fprintf(a, "message A%d {\n  string id = 1;\n  NE ne = 2%s;\n  // c:NE\n  enum NE {\n%s    NE%d_0 = 0%s;\n    NE%d_1 = 1;\n  }\n}\n",
			i, b.compact("field", A), b.stmt("    ", "enum", A), i, b.compact("value", A), i)
		inc(fmt.Sprintf("p.A%d", i))
		exc(fmt.Sprintf("p.A%d.NE", i))
	case "extension-value-type":
		b.usesX = true
		b.imp(X, "v.proto")
		fmt.Fprintf(x, "extend Ext {\n  // c:x%d\n  optional .v.X x%d = %d%s;\n  optional int32 k%d = %d;\n}\n", i, i, 100+2*i, b.compact("field", X), i, 101+2*i)
		inc("p.Ext")
		exc("v.X")
	case "extension-extendee":
		b.usesX = true
		b.imp(X, "vx.proto")
		fmt.Fprintf(x, "message K%d { optional int32 k = 1; }\nextend .v.XExt {\n  // c:y%d\n  optional int32 y%d = %d%s;\n}\n", i, i, i, 100+i, b.compact("field", X))
		inc(fmt.Sprintf("p.K%d", i))
		exc("v.XExt")
	case "namespace-only-parent":
		// included: only the nested message; the parent stays as a namespace without its fields
		gone := b.compact("field", A)
		oo := b.stmt("    ", "oneof", A)
		z := b.compact("field", A)
		fmt.Fprintf(a, "// c:B%d\nmessage B%d {\n  string gone = 1%s;\n  oneof o {\n%s    string z = 2%s;\n  }\n  // c:N\n  message N { string t = 1; }\n}\n", i, i, gone, oo, z)
		inc(fmt.Sprintf("p.B%d.N", i))
	case "namespace-only-parent-proto2":
		b.usesX = true
		fmt.Fprintf(x, "message B%d {\n  optional string gone = 1%s;\n  extensions 100 to 199%s;\n  message N { optional string t = 1; }\n}\n", i, b.compact("field", X), b.compact("range", X))
		inc(fmt.Sprintf("p.B%d.N", i))
	case "toplevel-message-excluded":
		fmt.Fprintf(a, "message Keep%d { string k = 1; }\n// c:T%d\nmessage T%d {\n%s  string t = 1%s;\n}\n", i, i, i, b.stmt("  ", "msg", A), b.compact("field", A))
		inc(fmt.Sprintf("p.Keep%d", i))
		exc(fmt.Sprintf("p.T%d", i))
	case "toplevel-enum-excluded":
		fmt.Fprintf(a, "message Keep%d { string k = 1; }\n// c:TE%d\nenum TE%d {\n%s  TE%d_0 = 0%s;\n}\n", i, i, i, b.stmt("  ", "enum", A), i, b.compact("value", A))
		inc(fmt.Sprintf("p.Keep%d", i))
		exc(fmt.Sprintf("p.TE%d", i))
	case "service-excluded":
		fmt.Fprintf(a, "message Rq%d {}\nmessage Rs%d {}\n// c:TS%d\nservice TS%d {\n%s  rpc R(Rq%d) returns (Rs%d) {\n%s  }\n}\n", i, i, i, i, b.stmt("  ", "svc", A), i, i, b.stmt("    ", "method", A))
		inc(fmt.Sprintf("p.Rq%d", i))
		exc(fmt.Sprintf("p.TS%d", i))
	case "method-excluded-by-name":
		fmt.Fprintf(a, "message Rq%d {}\nmessage Rs%d {}\nservice S%d {\n  rpc Keep(Rq%d) returns (Rs%d);\n  // c:Gone\n  rpc Gone(Rq%d) returns (Rs%d) {\n%s  }\n}\n", i, i, i, i, i, i, i, b.stmt("    ", "method", A))
		inc(fmt.Sprintf("p.S%d", i))
		exc(fmt.Sprintf("p.S%d.Gone", i))
	case "package-excluded":
		w := fmt.Sprintf("w%d.proto", i)
		var wb strings.Builder
		fo := b.stmt("", "file", w)
		mo := b.stmt("  ", "msg", w)
		fdo := b.compact("field", w)
		fmt.Fprintf(&wb, "%s// c:W\nmessage W {\n%s  string s = 1%s;\n}\n", fo, mo, fdo)
		b.others[w] = fmt.Sprintf("syntax = \"proto3\";\npackage w%d;\n", i) + "%IMPORTS%" + wb.String()
		b.imp(A, w)
		fmt.Fprintf(a, "message A%d {\n  string id = 1;\n  .w%d.W w = 2%s;\n}\n", i, i, b.compact("field", A))
		inc(fmt.Sprintf("p.A%d", i))
		exc(fmt.Sprintf("w%d", i))
	default:
		panic("unknown plant kind " + kind)
	}
}

func importLines(m map[string]bool) string {
	var ds []string
	for d := range m {
		ds = append(ds, d)
	}
	sort.Strings(ds)
	var sb strings.Builder
	for _, d := range ds {
		fmt.Fprintf(&sb, "import %q;\n", d)
	}
	return sb.String()
}

type dWorkspace struct {
	name             string
	target, imported map[string]string
	include, exclude []string
	counts           map[string]int
}

// droppedWorkspace builds one workspace with the given plants.  optionFilesNonTarget: od*/pay*/w*
// live in the non-target module (an exclude-only filter can then drop them).
func droppedWorkspace(r *hx.Rand, kinds []string, valueKind string, optionFilesNonTarget bool) *dWorkspace {
	b := &dBuilder{r: r, imports: map[string]map[string]bool{}, others: map[string]string{}, fixedValue: valueKind, counts: map[string]int{}}
	for i, k := range kinds {
		b.plant(k, i+1)
	}
	// a control: an element that survives every filter of this workspace, with an option of its own
	if r.Chance(3, 4) {
		b.fixedValue = ""
		b.newOd()
		fmt.Fprintf(&b.a, "// c:C\nmessage C {\n%s  string c = 1%s;\n}\n", b.stmt("  ", "msg", "a.proto"), b.compact("field", "a.proto"))
		b.include = append(b.include, "p.C")
		b.counts["D:control-option-survives"]++
	}
	files := map[string]string{}
	files["a.proto"] = "syntax = \"proto3\";\npackage p;\n" + importLines(b.imports["a.proto"]) + b.a.String()
	if b.usesX {
		files["x.proto"] = "syntax = \"proto2\";\npackage p;\n" + importLines(b.imports["x.proto"]) +
			"// c:Ext\nmessage Ext {\n  optional int32 k = 1;\n  extensions 100 to 199;\n}\n" + b.x.String()
	}
	files["v.proto"] = "syntax = \"proto3\";\npackage v;\n// c:X\nmessage X { string s = 1; }\n// c:XE\nenum XE { XE_0 = 0; XE_1 = 1; }\n"
	files["vx.proto"] = "syntax = \"proto2\";\npackage v;\n// c:XExt\nmessage XExt { extensions 100 to 199; }\n"
	side := map[string]string{}
	for w, body := range b.others {
		side[w] = strings.Replace(body, "%IMPORTS%", importLines(b.imports[w]), 1)
	}
	for _, od := range b.ods {
		side[fmt.Sprintf("od%d.proto", od.idx)] = fmt.Sprintf("syntax = \"proto2\";\npackage od%d;\nimport \"google/protobuf/descriptor.proto\";\nimport \"google/protobuf/any.proto\";\n"+
			"// c:Tag\nmessage Tag {\n  optional string name = 1;\n  optional google.protobuf.Any a = 2;\n  repeated Tag kids = 3;\n}\n// c:E\nenum E { E0 = 0; E1 = 1; }\n", od.idx) + strings.Join(od.decls, "")
		if od.usesPay {
			side[fmt.Sprintf("pay%d.proto", od.idx)] = fmt.Sprintf("syntax = \"proto3\";\npackage pay%d;\n// c:P\nmessage P { int32 q = 1; }\n", od.idx)
		}
	}
	ws := &dWorkspace{name: "dropped:" + strings.Join(kinds, "+"), target: files, imported: map[string]string{}, include: b.include, exclude: b.exclude, counts: b.counts}
	for p, s := range side {
		if optionFilesNonTarget {
			ws.imported[p] = s
		} else {
			ws.target[p] = s
		}
	}
	sort.Strings(ws.include)
	sort.Strings(ws.exclude)
	return ws
}

func sectionDropped(run *hx.Run, r *hx.Rand) {
	type spec struct {
		kinds     []string
		value     string
		nonTarget bool
	}
	var specs []spec
	if run.Thorough() {
		for _, k := range dPlantKinds {
			for _, v := range dValueKinds {
				specs = append(specs, spec{[]string{k}, v, false}, spec{[]string{k}, v, true})
			}
		}
	} else {
		// every kind of plant once, the value kinds and the placement of the option files rotate with the seed
		for i, k := range dPlantKinds {
			specs = append(specs, spec{[]string{k}, dValueKinds[(i+int(run.Seed%7))%len(dValueKinds)], (i+int(run.Seed))%2 == 0})
		}
	}
	for n := run.N(8, 150); n > 0; n-- {
		ks := append([]string(nil), dPlantKinds...)
		hx.Shuffle(r, ks)
		specs = append(specs, spec{ks[:2+r.Intn(2)], "", r.Chance(2, 3)})
	}
	for si, sp := range specs {
		idx := 200000 + si
		if run.Only >= 0 && run.Only != idx {
			continue
		}
		cr := r.Fork(uint64(si))
		ws := droppedWorkspace(cr, sp.kinds, sp.value, sp.nonTarget)
		image, err := buildImage(ws.target, ws.imported)
		if err != nil {
			panic(fmt.Sprintf("section D workspace %s does not compile: %v\n%v\n%v", ws.name, err, ws.target, ws.imported))
		}
		if run.Only >= 0 {
			for i, m := range []map[string]string{ws.target, ws.imported} {
				for k, v := range m {
					fmt.Printf("== module %d %s\n%s\n", i, k, v)
				}
			}
		}
		for k, v := range ws.counts {
			run.CountN(k, v)
		}
		run.Count("D:workspaces")
		if sp.nonTarget {
			run.Count("D:option-files-in-non-target-module")
		}
		pre := prepare(image)
		oracleOnly := !extensionsOrderIndependent(image, pre)
		var filters []filterSpec
		filters = append(filters, filterSpec{Include: ws.include, Exclude: ws.exclude})
		filters = append(filters, filterSpec{Include: []string{"p"}, Exclude: ws.exclude})
		if len(ws.exclude) > 0 {
			filters = append(filters, filterSpec{Exclude: ws.exclude})
		}
		for fi, f := range filters {
			f.InPlace = cr.Bool()
			f.AllowImported = cr.Bool()
			f.NoKnownExts = cr.Chance(1, 4)
			run.Count("D:filters")
			in := caseInput{Name: ws.name, Target: ws.target, Imported: ws.imported, Filter: f}
			oneCase(run, image, pre, in, fmt.Sprintf("build/c12 --seed %d --tier %s --out /tmp/c12-replay --only %d   # section D (%s), filter %d", run.Seed, run.Tier, idx, ws.name, fi), oracleOnly)
		}
	}
}
