package main

// Section G: `buf generate` with per-plugin `types` / `exclude_types` (bufgen.generator.execPlugins).
//
// One input image is shared by all plugins of a run; every plugin (batch of plugins with the same
// types / exclude_types / strategy) gets its own filtered view of it.  The whole bufgen.Generator is
// run on generated workspaces with 2-4 recording plugins (this binary re-executed with
// --as-plugin) whose configurations mix no filter / `types` / `exclude_types` / both, overlap on the
// same .proto files, and are tried in every order (all permutations of 2 or 3 plugins, the rotations
// and the reversal of 4).  Oracle (implementation only):
//
//	generate-plugin-request-not-own-filter   the CodeGeneratorRequests a plugin received are not the
//	                                         requests obtained by filtering a FRESH copy of the input
//	                                         image with that plugin's own filter only
//	generate-mutated-input-image             the input image handed to Generate differs afterwards
//	generate-fails-with-valid-filters        every plugin's filter succeeds on a fresh copy, yet the
//	                                         run fails
//
// Filters whose result legitimately depends on Go's map iteration order (see main.go) are not
// generated here, and every expected filter result is computed twice on two fresh copies.
//
// Which filter reaches which plugin is decided by the batching key of execPlugins
// (createPluginConfigKeyForImage: sorted types, sorted exclude_types, strategy, remote): the first
// plugin of a batch lends its filter to all the others.  The first cases of every run are therefore
// STRATIFIED over plugin sets whose keys are close (genStrata): the same names split differently
// between `types` and `exclude_types` ({types:[X]} / {exclude_types:[X]}; {types:[A,B]} /
// {types:[A], exclude_types:[B]} / {types:[B], exclude_types:[A]} / {exclude_types:[A,B]}), equal
// filters spelt differently (order, duplicates), equal filters with different strategies, a
// nested name next to its parent, no filter next to a filter; one case in four also applies an
// INPUT-level types / exclude_types filter first (as bufctl does for `inputs: - types:`), so the
// plugin-level filters run on an already filtered image.
//
// Correspondence: one protocol line `g` per run.  The harness names, for every plugin, the class of
// its OWN filter result (plugins whose freshly filtered images are equal share a class) and observes
// the class of the image that actually reached the plugin; the Lean model (BufModel.GenBatch: key,
// rep) must predict the observed classes from the configured names alone.

import (
	"bytes"
	"fmt"
	"io"
	"os"
	"path/filepath"
	"sort"
	"strings"

	"github.com/bufbuild/buf/private/buf/bufgen"
	"github.com/bufbuild/buf/private/bufpkg/bufconfig"
	"github.com/bufbuild/buf/private/bufpkg/bufimage"
	"github.com/bufbuild/buf/private/bufpkg/bufimage/bufimageutil"
	"github.com/bufbuild/buf/private/pkg/app"
	"github.com/bufbuild/buf/private/pkg/storage/storageos"
	"github.com/bufbuild/verifharness/internal/hx"
	"google.golang.org/protobuf/proto"
	"google.golang.org/protobuf/reflect/protodesc"
	"google.golang.org/protobuf/types/descriptorpb"
	"google.golang.org/protobuf/types/pluginpb"
)

// pluginMain: this binary as a protoc plugin.  parameter = directory to record the request in.
func pluginMain() {
	in, err := io.ReadAll(os.Stdin)
	if err != nil {
		os.Exit(3)
	}
	req := &pluginpb.CodeGeneratorRequest{}
	if err := proto.Unmarshal(in, req); err != nil {
		os.Exit(3)
	}
	if f, err := os.CreateTemp(req.GetParameter(), "req-*.bin"); err == nil {
		f.Write(in)
		f.Close()
	}
	out, _ := proto.Marshal(&pluginpb.CodeGeneratorResponse{
		SupportedFeatures: proto.Uint64(uint64(pluginpb.CodeGeneratorResponse_FEATURE_PROTO3_OPTIONAL)),
	})
	os.Stdout.Write(out)
}

type genPlugin struct {
	Types        []string `json:"types"`
	ExcludeTypes []string `json:"exclude_types"`
	StrategyAll  bool     `json:"strategy_all"`
	Imports      bool     `json:"include_imports"`
}

func (p genPlugin) kind() string {
	switch {
	case len(p.Types) > 0 && len(p.ExcludeTypes) > 0:
		return "both"
	case len(p.Types) > 0:
		return "types"
	case len(p.ExcludeTypes) > 0:
		return "exclude_types"
	}
	return "none"
}

func (p genPlugin) key() string {
	return fmt.Sprintf("%v|%v|%v", p.Types, p.ExcludeTypes, p.StrategyAll)
}

// filterFresh filters a FRESH clone of base with the plugin's own filter, exactly as execPlugins
// configures FilterImage.
func (p genPlugin) filterFresh(base bufimage.Image) (img bufimage.Image, err error) {
	defer func() {
		if pn := recover(); pn != nil {
			err = fmt.Errorf("panic: %v", pn)
		}
	}()
	clone, err := bufimage.CloneImage(base)
	if err != nil {
		return nil, err
	}
	if len(p.Types) == 0 && len(p.ExcludeTypes) == 0 {
		return clone, nil
	}
	return bufimageutil.FilterImage(clone, bufimageutil.WithIncludeTypes(p.Types...), bufimageutil.WithExcludeTypes(p.ExcludeTypes...))
}

func sameImage(a, b bufimage.Image) string {
	if len(a.Files()) != len(b.Files()) {
		return fmt.Sprintf("%d files instead of %d", len(b.Files()), len(a.Files()))
	}
	for i, f := range a.Files() {
		g := b.Files()[i]
		if f.Path() != g.Path() {
			return fmt.Sprintf("file %d is %s instead of %s", i, g.Path(), f.Path())
		}
		if f.IsImport() != g.IsImport() {
			return "import flag of " + f.Path() + " changed"
		}
		if !proto.Equal(f.FileDescriptorProto(), g.FileDescriptorProto()) {
			return "descriptor of " + f.Path() + " changed: " + descriptorDiff(f.FileDescriptorProto(), g.FileDescriptorProto())
		}
	}
	return ""
}

func topLevelNames(fd *descriptorpb.FileDescriptorProto) []string {
	var out []string
	for _, m := range fd.MessageType {
		out = append(out, m.GetName())
	}
	for _, e := range fd.EnumType {
		out = append(out, e.GetName())
	}
	for _, s := range fd.Service {
		out = append(out, s.GetName())
	}
	for _, x := range fd.Extension {
		out = append(out, x.GetName())
	}
	return out
}

func descriptorDiff(want, got *descriptorpb.FileDescriptorProto) string {
	return fmt.Sprintf("top-level declarations %v, expected %v; dependencies %v, expected %v", topLevelNames(got), topLevelNames(want), got.Dependency, want.Dependency)
}

// expectedRequests: what the plugin must receive according to its own configuration only.
func (p genPlugin) expectedRequests(base bufimage.Image, param string) ([]*pluginpb.CodeGeneratorRequest, error) {
	filtered, err := p.filterFresh(base)
	if err != nil {
		return nil, err
	}
	return p.requestsFor(filtered, param)
}

// requestsFor: the requests of this plugin (its strategy, include_imports, parameter) for an already
// filtered image.
func (p genPlugin) requestsFor(filtered bufimage.Image, param string) ([]*pluginpb.CodeGeneratorRequest, error) {
	var err error
	images := []bufimage.Image{filtered}
	if !p.StrategyAll {
		images, err = bufimage.ImageByDir(filtered)
		if err != nil {
			return nil, err
		}
	}
	return bufimage.ImagesToCodeGeneratorRequests(images, param, nil, p.Imports, false)
}

func reqKey(r *pluginpb.CodeGeneratorRequest) string { return strings.Join(r.GetFileToGenerate(), ",") }

func normalise(rs []*pluginpb.CodeGeneratorRequest, res *resolvedImage) ([]*pluginpb.CodeGeneratorRequest, error) {
	out := make([]*pluginpb.CodeGeneratorRequest, 0, len(rs))
	for _, r := range rs {
		b, err := proto.Marshal(r)
		if err != nil {
			return nil, err
		}
		n := &pluginpb.CodeGeneratorRequest{}
		if err := (proto.UnmarshalOptions{Resolver: res.types}).Unmarshal(b, n); err != nil {
			return nil, err
		}
		out = append(out, n)
	}
	sort.SliceStable(out, func(i, j int) bool { return reqKey(out[i]) < reqKey(out[j]) })
	return out, nil
}

func compareRequests(want, got []*pluginpb.CodeGeneratorRequest) string {
	if len(want) != len(got) {
		return fmt.Sprintf("%d requests instead of %d", len(got), len(want))
	}
	for i := range want {
		w, g := want[i], got[i]
		if proto.Equal(w, g) {
			continue
		}
		if reqKey(w) != reqKey(g) {
			return fmt.Sprintf("file_to_generate is [%s], expected [%s]", reqKey(g), reqKey(w))
		}
		names := func(fs []*descriptorpb.FileDescriptorProto) []string {
			var out []string
			for _, f := range fs {
				out = append(out, f.GetName())
			}
			return out
		}
		if a, b := names(w.ProtoFile), names(g.ProtoFile); strings.Join(a, ",") != strings.Join(b, ",") {
			return fmt.Sprintf("request for [%s]: proto_file is %v, expected %v", reqKey(w), b, a)
		}
		for j := range w.ProtoFile {
			if !proto.Equal(w.ProtoFile[j], g.ProtoFile[j]) {
				return fmt.Sprintf("request for [%s]: proto_file %s differs: %s", reqKey(w), w.ProtoFile[j].GetName(), descriptorDiff(w.ProtoFile[j], g.ProtoFile[j]))
			}
		}
		for j := range w.SourceFileDescriptors {
			if j >= len(g.SourceFileDescriptors) || !proto.Equal(w.SourceFileDescriptors[j], g.SourceFileDescriptors[j]) {
				return fmt.Sprintf("request for [%s]: source_file_descriptors differ at %s", reqKey(w), w.SourceFileDescriptors[j].GetName())
			}
		}
		return fmt.Sprintf("request for [%s] differs outside the file lists", reqKey(w))
	}
	return ""
}

// genStrata: the shapes of plugin sets whose batching keys are close.
var genStrata = []string{
	"types-X|exclude-X", "types-A,B|types-A-exclude-B", "A-minus-B|B-minus-A|types-A,B", "all-four-splits-of-A,B",
	"equal-up-to-order-and-duplicates", "same-filter-different-strategies", "filter|none|opposite-filter", "nested-name-and-parent",
	// the unnamed package "" is a name like any other for FilterImage (files without a package
	// statement), but the batching key renders [""] like []: recorded as-coded defect, judged by the
	// oracle only (class generate-batch-key-ambiguous-name), no protocol line
	"unnamed-package|none",
}

// genPluginSpecs draws 2-4 plugin configurations for one image; stratum >= 0 selects a shape of genStrata.
func genPluginSpecs(r *hx.Rand, base bufimage.Image, pre *prepared, stratum int) []genPlugin {
	orig := locate(base)
	byFile := map[string][]string{}
	var files []string
	for n, l := range orig {
		if l.isImp || !(l.kind == "msg" || l.kind == "enum" || l.kind == "svc") {
			continue
		}
		if len(byFile[l.file]) == 0 {
			files = append(files, l.file)
		}
		byFile[l.file] = append(byFile[l.file], n)
	}
	if len(files) == 0 {
		return nil
	}
	sort.Strings(files)
	for _, f := range files {
		sort.Strings(byFile[f])
	}
	// most names come from ONE file so that the filters overlap on it
	focus := hx.Pick(r, files)
	pick := func() string {
		if r.Chance(3, 4) {
			return hx.Pick(r, byFile[focus])
		}
		return hx.Pick(r, byFile[hx.Pick(r, files)])
	}
	names := func(n int) []string {
		seen := map[string]bool{}
		var out []string
		for i := 0; i < n; i++ {
			if s := pick(); !seen[s] {
				seen[s] = true
				out = append(out, s)
			}
		}
		sort.Strings(out)
		return out
	}
	usable := func(p genPlugin) bool {
		f := filterSpec{Include: p.Types, Exclude: p.ExcludeTypes}
		if lazilyExcludedOption(base, pre, f) {
			return false
		}
		a, err := p.filterFresh(base)
		if err != nil {
			return false
		}
		// a filter whose result does not link belongs to the recorded families of the filter itself
		// (map value type excluded, oneof index not renumbered, ...): judged in section 2, and a
		// plugin framework may refuse such a request - not used here
		if _, lerr := protodesc.NewFiles(bufimage.ImageToFileDescriptorSet(a)); lerr != nil {
			return false
		}
		b, err := p.filterFresh(base)
		return err == nil && sameImage(a, b) == ""
	}
	if stratum >= 0 {
		all := map[string]bool{}
		var flat []string
		for _, f := range files {
			for _, n := range byFile[f] {
				all[n] = true
				flat = append(flat, n)
			}
		}
		for try := 0; try < 30; try++ {
			sa := r.Chance(2, 3)
			mk := func(types, excl []string, strategyAll bool) genPlugin {
				return genPlugin{Types: types, ExcludeTypes: excl, StrategyAll: strategyAll, Imports: r.Bool()}
			}
			x, a, b := pick(), pick(), pick()
			if a == b || strings.HasPrefix(a, b+".") || strings.HasPrefix(b, a+".") {
				continue
			}
			var ps []genPlugin
			switch genStrata[stratum] {
			case "types-X|exclude-X":
				ps = []genPlugin{mk([]string{x}, nil, sa), mk(nil, []string{x}, sa)}
			case "types-A,B|types-A-exclude-B":
				ps = []genPlugin{mk([]string{a, b}, nil, sa), mk([]string{a}, []string{b}, sa)}
			case "A-minus-B|B-minus-A|types-A,B":
				ps = []genPlugin{mk([]string{a}, []string{b}, sa), mk([]string{b}, []string{a}, sa), mk([]string{a, b}, nil, sa)}
			case "all-four-splits-of-A,B":
				ps = []genPlugin{mk(nil, []string{a, b}, sa), mk([]string{a}, []string{b}, sa), mk([]string{a, b}, nil, sa), mk([]string{b}, []string{a}, sa)}
			case "equal-up-to-order-and-duplicates":
				ps = []genPlugin{mk([]string{a, b}, nil, sa), mk([]string{b, a}, nil, sa), mk([]string{a, b, a}, nil, sa), mk(nil, []string{b, a}, sa)}
			case "same-filter-different-strategies":
				ps = []genPlugin{mk([]string{x}, nil, true), mk([]string{x}, nil, false), mk(nil, []string{x}, false), mk(nil, []string{x}, true)}
			case "filter|none|opposite-filter":
				ps = []genPlugin{mk([]string{x}, nil, sa), mk(nil, nil, sa), mk(nil, []string{x}, sa)}
			case "unnamed-package|none":
				ps = []genPlugin{mk([]string{""}, nil, sa), mk(nil, nil, sa), mk(nil, []string{""}, sa)}
				for _, p := range ps {
					if !usable(p) {
						return nil // no package-less target file with types here
					}
				}
			case "nested-name-and-parent":
				var nested []string
				for _, n := range flat {
					if all[parentName(n)] {
						nested = append(nested, n)
					}
				}
				if len(nested) == 0 {
					return nil
				}
				n := hx.Pick(r, nested)
				ps = []genPlugin{mk([]string{n}, nil, sa), mk([]string{parentName(n)}, []string{n}, sa), mk([]string{parentName(n), n}, nil, sa), mk(nil, []string{n}, sa)}
			}
			ok := true
			for _, p := range ps {
				ok = ok && usable(p)
			}
			if ok {
				return ps
			}
		}
		return nil
	}
	np := 2 + r.Intn(3)
	kinds := []string{"none", "types", "exclude_types", "both"}
	var ps []genPlugin
	for len(ps) < np {
		var p genPlugin
		ok := false
		for try := 0; try < 12 && !ok; try++ {
			p = genPlugin{StrategyAll: r.Chance(2, 3), Imports: r.Bool()}
			switch hx.Pick(r, kinds) {
			case "types":
				p.Types = names(1 + r.Intn(2))
			case "exclude_types":
				p.ExcludeTypes = names(1 + r.Intn(2))
			case "both":
				p.Types = names(1 + r.Intn(2))
				for _, x := range names(1 + r.Intn(2)) {
					covered := false
					for _, t := range p.Types {
						covered = covered || t == x || strings.HasPrefix(t, x+".")
					}
					if !covered {
						p.ExcludeTypes = append(p.ExcludeTypes, x)
					}
				}
			}
			ok = usable(p)
		}
		if !ok {
			p = genPlugin{StrategyAll: true}
		}
		ps = append(ps, p)
	}
	// at least two different filters, at least one real one
	distinct := map[string]bool{}
	filtered := false
	for _, p := range ps {
		distinct[fmt.Sprint(p.Types, p.ExcludeTypes)] = true
		filtered = filtered || p.kind() != "none"
	}
	if len(distinct) < 2 || !filtered {
		return nil
	}
	return ps
}

func orders(n int) [][]int {
	id := make([]int, n)
	for i := range id {
		id[i] = i
	}
	if n <= 3 {
		var out [][]int
		var rec func(k int)
		rec = func(k int) {
			if k == n {
				out = append(out, append([]int(nil), id...))
				return
			}
			for i := k; i < n; i++ {
				id[k], id[i] = id[i], id[k]
				rec(k + 1)
				id[k], id[i] = id[i], id[k]
			}
		}
		rec(0)
		return out
	}
	var out [][]int
	for s := 0; s < n; s++ {
		o := make([]int, n)
		for i := range o {
			o[i] = (i + s) % n
		}
		out = append(out, o)
	}
	rev := make([]int, n)
	for i := range rev {
		rev[i] = n - 1 - i
	}
	return append(out, rev)
}

func sectionGenerate(run *hx.Run, r *hx.Rand) {
	exe, err := os.Executable()
	if err != nil {
		panic(err)
	}
	scratch, err := filepath.Abs(filepath.Join(run.OutDir, "gen"))
	if err != nil {
		panic(err)
	}
	n := run.N(26, 200)
	done := 0
	for ci := 0; done < n && ci < 4*n; ci++ {
		idx := 100000 + ci
		if run.Only >= 0 && run.Only != idx {
			continue
		}
		cr := r.Fork(uint64(ci))
		ws := generateWorkspace(cr)
		base, err := buildImage(ws.sources[0], ws.sources[1])
		if err != nil {
			continue
		}
		pre := prepare(base)
		if !extensionsOrderIndependent(base, pre) {
			run.Count("G:skipped(addExtensions map-order dependent workspace)")
			continue
		}
		// the first cases walk through the strata of close batching keys, later ones hit one in three
		// (chosen by the case index alone, so that --only replays the same case)
		stratum := -1
		if ci < 2*len(genStrata) {
			stratum = ci % len(genStrata)
		} else if cr.Chance(1, 3) {
			stratum = cr.Intn(len(genStrata))
		}
		// requests are decoded with the types of the UNFILTERED workspace: an input-level filter that
		// excludes (part of) an option's value type leaves the values behind, and compared as unknown
		// bytes their map entries would be in marshalling (= random) order
		resFull := pre.resolvedInput(base)
		if resFull.err != nil {
			continue
		}
		// one case in four: an input-level filter first (bufctl: FilterImage(..., WithMutateInPlace()))
		var inputFilter *genPlugin
		if cr.Chance(1, 4) {
			if ps := genPluginSpecs(cr, base, pre, -1); ps != nil {
				for _, p := range ps {
					if p.kind() != "none" {
						p := p
						inputFilter = &p
						break
					}
				}
			}
			if inputFilter != nil {
				clone, err := bufimage.CloneImage(base)
				if err != nil {
					panic(err)
				}
				filtered, err := bufimageutil.FilterImage(clone, bufimageutil.WithIncludeTypes(inputFilter.Types...), bufimageutil.WithExcludeTypes(inputFilter.ExcludeTypes...), bufimageutil.WithMutateInPlace())
				if err != nil {
					continue // cannot happen: usable() ran the same filter
				}
				base = filtered
				pre = prepare(base)
				if !extensionsOrderIndependent(base, pre) {
					continue
				}
			}
		}
		if res := pre.resolvedInput(base); res.err != nil {
			continue
		}
		res := resFull
		specs := genPluginSpecs(cr, base, pre, stratum)
		if specs == nil {
			run.Count("G:skipped(no two usable different filters)")
			continue
		}
		done++
		if stratum >= 0 {
			run.Count("G:stratum:" + genStrata[stratum])
		} else {
			run.Count("G:stratum:none(random plugin set)")
		}
		if inputFilter != nil {
			run.Count("G:input-level-filter:" + inputFilter.kind())
		}
		run.Count(fmt.Sprintf("G:plugins:%d", len(specs)))
		for _, o := range orders(len(specs)) {
			ordered := make([]genPlugin, len(o))
			for i, j := range o {
				ordered[i] = specs[j]
			}
			replay := fmt.Sprintf("build/c12 --seed %d --tier %s --out /tmp/c12-replay --only %d   # generate run, plugin order %v", run.Seed, run.Tier, idx, o)
			runGenerate(run, exe, scratch, base, res, ws, inputFilter, ordered, replay)
		}
	}
}

func runGenerate(run *hx.Run, exe, scratch string, base bufimage.Image, res *resolvedImage, ws *workspace, inputFilter *genPlugin, specs []genPlugin, replay string) {
	in := map[string]any{"target_module": ws.sources[0], "non_target_module": ws.sources[1], "plugins": specs}
	if inputFilter != nil {
		in["input_types"], in["input_exclude_types"] = inputFilter.Types, inputFilter.ExcludeTypes
	}
	fail := func(class, what string) {
		recordFailure(run, hx.OracleFailure{Class: class, What: what, Input: in, Replay: replay})
	}
	run.Eval()
	run.Count("G:generate-runs")
	ks := make([]string, len(specs))
	for i, p := range specs {
		ks[i] = p.kind()
		run.Count("G:plugin-filter:" + p.kind())
	}
	run.Distinct("G|" + strings.Join(ks, ",") + "|" + fmt.Sprint(specs))
	_ = os.RemoveAll(scratch)
	input, err := bufimage.CloneImage(base)
	if err != nil {
		panic(err)
	}
	recDirs := make([]string, len(specs))
	var pluginConfigs []bufconfig.GeneratePluginConfig
	for i, p := range specs {
		recDirs[i] = filepath.Join(scratch, fmt.Sprintf("rec%d", i))
		if err := os.MkdirAll(recDirs[i], 0o755); err != nil {
			panic(err)
		}
		strategy := bufconfig.GenerateStrategyDirectory
		if p.StrategyAll {
			strategy = bufconfig.GenerateStrategyAll
		}
		pc, err := bufconfig.NewLocalGeneratePluginConfig(fmt.Sprintf("verif%d", i), filepath.Join(scratch, fmt.Sprintf("out%d", i)),
			[]string{recDirs[i]}, p.Imports, false, append([]string(nil), p.Types...), append([]string(nil), p.ExcludeTypes...), &strategy, []string{exe, "--as-plugin"})
		if err != nil {
			panic(err)
		}
		pluginConfigs = append(pluginConfigs, pc)
	}
	genConfig, err := bufconfig.NewGenerateConfig(false, pluginConfigs, bufconfig.NewGenerateManagedConfig(false, nil, nil), nil)
	if err != nil {
		panic(err)
	}
	var stderr bytes.Buffer
	container := app.NewContainer(map[string]string{"PATH": os.Getenv("PATH")}, nil, io.Discard, &stderr)
	var gerr error
	func() {
		defer func() {
			if p := recover(); p != nil {
				gerr = fmt.Errorf("panic: %v", p)
			}
		}()
		gerr = bufgen.NewGenerator(quiet, storageos.NewProvider(storageos.ProviderWithSymlinks()), nil).
			Generate(ctx, container, genConfig, []bufimage.Image{input})
	}()
	if run.Only >= 0 {
		fmt.Printf("generate %+v -> %v\n", specs, gerr)
	}
	// the input image must be unchanged
	if why := sameImage(base, input); why != "" {
		fail("generate-mutated-input-image", "after Generate the input image differs from what was handed in: "+why)
	}
	if gerr != nil {
		fail("generate-fails-with-valid-filters", fmt.Sprintf("every plugin's filter succeeds on a fresh copy of the image, yet Generate fails: %v", gerr))
		return
	}
	// class of every plugin's OWN filter result: plugins whose freshly filtered images are equal share one
	filtered := make([]bufimage.Image, len(specs))
	cls := make([]int, len(specs))
	for i, p := range specs {
		var err error
		if filtered[i], err = p.filterFresh(base); err != nil {
			return // cannot happen: usable() ran the same filter
		}
		cls[i] = i
		for j := 0; j < i; j++ {
			if sameImage(filtered[j], filtered[i]) == "" {
				cls[i] = cls[j]
				break
			}
		}
	}
	// names that fmt's %v renders ambiguously (the empty name, a name with a blank)
	ambiguousNames := false
	for _, p := range specs {
		for _, n := range append(append([]string(nil), p.Types...), p.ExcludeTypes...) {
			ambiguousNames = ambiguousNames || n == "" || strings.Contains(n, " ")
		}
	}
	observed := make([]string, len(specs))
	for i, p := range specs {
		observed[i] = "?"
		want, err := p.requestsFor(filtered[i], recDirs[i])
		if err != nil {
			continue
		}
		want, err = normalise(want, res)
		if err != nil {
			continue
		}
		ents, _ := os.ReadDir(recDirs[i])
		var got []*pluginpb.CodeGeneratorRequest
		for _, e := range ents {
			b, err := os.ReadFile(filepath.Join(recDirs[i], e.Name()))
			if err != nil {
				continue
			}
			rq := &pluginpb.CodeGeneratorRequest{}
			if err := (proto.UnmarshalOptions{Resolver: res.types}).Unmarshal(b, rq); err == nil {
				got = append(got, rq)
			}
		}
		sort.SliceStable(got, func(a, b int) bool { return reqKey(got[a]) < reqKey(got[b]) })
		run.CountN("G:requests-recorded", len(got))
		if why := compareRequests(want, got); why != "" {
			class := "generate-plugin-request-not-own-filter"
			if ambiguousNames {
				class = "generate-batch-key-ambiguous-name"
			}
			fail(class, fmt.Sprintf("plugin %d (types=%v exclude_types=%v) did not receive the image filtered by its own filter only: %s", i, p.Types, p.ExcludeTypes, why))
			// whose filter did reach it?
			for j := range specs {
				if cls[j] != j || j == cls[i] {
					continue
				}
				other, err := p.requestsFor(filtered[j], recDirs[i])
				if err != nil {
					continue
				}
				if other, err = normalise(other, res); err == nil && compareRequests(other, got) == "" {
					observed[i] = fmt.Sprint(j)
					break
				}
			}
		} else {
			observed[i] = fmt.Sprint(cls[i])
		}
	}
	// correspondence with the batching model: which filter class reaches which plugin
	encList := func(xs []string) string {
		ys := make([]string, len(xs))
		for i, x := range xs {
			ys[i] = hx.Enc(x)
		}
		return strings.Join(ys, ",")
	}
	fields := make([]string, len(specs))
	for i, p := range specs {
		st := "d"
		if p.StrategyAll {
			st = "a"
		}
		fields[i] = fmt.Sprintf("%s|%s|%s|%d", encList(p.Types), encList(p.ExcludeTypes), st, cls[i])
	}
	if ambiguousNames {
		run.Count("G:runs-with-ambiguously-rendered-names(oracle only)")
		return
	}
	run.Case("g\t"+strings.Join(fields, ";"), strings.Join(observed, ","), true)
}
