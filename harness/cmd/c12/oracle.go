package main

// Property oracle for C12: judges the implementation alone (no Lean model involved).
//   links            protodesc.NewFiles accepts the result; every type needed to decode a custom option
//                    value that survives is in the result (optvalues.go)
//   includes         every included element is present
//   excludes         no excluded element is present, nothing refers to one
//   idempotent       filtering the result again (excludes restricted to names that still exist) changes nothing
//   survivors        kept descriptors equal the originals modulo dropped children
//   comments         the location of a kept element carries the comment of the element with the same full name
//   total            a filter built from existing, non-conflicting names does not fail
//   copy mode        without WithMutateInPlace the input image is not modified
//   minimal          every file / element / import of the result is needed by something that survives (minimal.go)

import (
	"fmt"
	"sort"
	"strings"

	"github.com/bufbuild/buf/private/bufpkg/bufimage"
	"github.com/bufbuild/protocompile/walk"
	"github.com/bufbuild/verifharness/internal/hx"
	"google.golang.org/protobuf/encoding/prototext"
	"google.golang.org/protobuf/proto"
	"google.golang.org/protobuf/reflect/protodesc"
	"google.golang.org/protobuf/reflect/protoreflect"
	"google.golang.org/protobuf/types/descriptorpb"
)

// recordFailure keeps at most failuresPerClass failures of one class in oracle.json (all are
// counted): hx.Run keeps the first 200 failures only, and the recorded findings fire a few hundred
// times per run - they must not crowd out a class that has not been seen before.
const failuresPerClass = 6

var failuresOfClass = map[string]int{}

func recordFailure(run *hx.Run, f hx.OracleFailure) {
	run.Count("oracle:" + f.Class)
	failuresOfClass[f.Class]++
	if failuresOfClass[f.Class] <= failuresPerClass {
		run.Fail(f)
	}
}

type located struct {
	kind   string // msg enum svc method ext field oneof value
	file   string
	isImp  bool
	desc   proto.Message
	path   string // source path rendered
	parent string
}

// locate lists every named descriptor of an image with its source path.
func locate(image bufimage.Image) map[string]located {
	res := map[string]located{}
	for _, f := range image.Files() {
		_ = walk.DescriptorProtosWithPath(f.FileDescriptorProto(), func(name protoreflect.FullName, path protoreflect.SourcePath, msg proto.Message) error {
			kind := ""
			switch d := msg.(type) {
			case *descriptorpb.DescriptorProto:
				kind = "msg"
			case *descriptorpb.EnumDescriptorProto:
				kind = "enum"
			case *descriptorpb.ServiceDescriptorProto:
				kind = "svc"
			case *descriptorpb.MethodDescriptorProto:
				kind = "method"
			case *descriptorpb.FieldDescriptorProto:
				kind = "field"
				if d.Extendee != nil {
					kind = "ext"
				}
			case *descriptorpb.OneofDescriptorProto:
				kind = "oneof"
			case *descriptorpb.EnumValueDescriptorProto:
				kind = "value"
			default:
				return nil
			}
			parent := ""
			if i := strings.LastIndexByte(string(name), '.'); i >= 0 {
				parent = string(name[:i])
			}
			res[string(name)] = located{kind: kind, file: f.Path(), isImp: f.IsImport(), desc: msg, path: fmt.Sprint([]int32(path)), parent: parent}
			return nil
		})
	}
	return res
}

func leadingComments(image bufimage.Image) map[string]map[string]string {
	res := map[string]map[string]string{}
	for _, f := range image.Files() {
		m := map[string]string{}
		for _, l := range f.FileDescriptorProto().GetSourceCodeInfo().GetLocation() {
			m[fmt.Sprint(l.Path)] = l.GetLeadingComments()
		}
		res[f.Path()] = m
	}
	return res
}

type excluded struct {
	names map[string]bool // excluded element names (given ones)
	pkgs  map[string]bool
	orig  map[string]located
	pkgOf map[string]string // file path -> package
}

func (e *excluded) has(name string) bool {
	l, ok := e.orig[name]
	if !ok {
		return false
	}
	if e.pkgs[e.pkgOf[l.file]] {
		return true
	}
	for n := name; n != ""; {
		if e.names[n] {
			return true
		}
		p, ok := e.orig[n]
		if !ok {
			break
		}
		n = p.parent
	}
	return false
}

func refsOf(l located) []string {
	var out []string
	switch d := l.desc.(type) {
	case *descriptorpb.FieldDescriptorProto:
		if d.TypeName != nil {
			out = append(out, trimDot(d.GetTypeName()))
		}
		if d.Extendee != nil {
			out = append(out, trimDot(d.GetExtendee()))
		}
	case *descriptorpb.MethodDescriptorProto:
		out = append(out, trimDot(d.GetInputType()), trimDot(d.GetOutputType()))
	}
	return out
}

func resolvable(name string, elems map[string]located, pkgs map[string]bool) bool {
	if l, ok := elems[name]; ok && (l.kind == "msg" || l.kind == "enum" || l.kind == "svc" || l.kind == "method" || l.kind == "ext") {
		return true
	}
	return pkgs[name]
}

func packagesOf(image bufimage.Image) (all map[string]bool, own map[string][]bufimage.ImageFile) {
	all = map[string]bool{"": true}
	own = map[string][]bufimage.ImageFile{}
	for _, f := range image.Files() {
		p := f.FileDescriptorProto().GetPackage()
		own[p] = append(own[p], f)
		for p != "" {
			all[p] = true
			if i := strings.LastIndexByte(p, '.'); i >= 0 {
				p = p[:i]
			} else {
				p = ""
			}
		}
	}
	return all, own
}

func isElem(l located) bool {
	return l.kind == "msg" || l.kind == "enum" || l.kind == "svc" || l.kind == "method" || l.kind == "ext"
}

func oracle(run *hx.Run, image bufimage.Image, pre *prepared, in caseInput, out, input bufimage.Image, err error, replay string, orderDependent, mapOrderDependent bool) {
	f := in.Filter
	fail := func(class, what string) {
		recordFailure(run, hx.OracleFailure{Class: class, What: what, Input: in, Replay: replay})
	}
	if err != nil && strings.HasPrefix(err.Error(), "panic") {
		fail("filter-panics", err.Error())
		return
	}
	orig := locate(image)
	allPkgs, pkgFiles := packagesOf(image)
	ex := &excluded{names: map[string]bool{}, pkgs: map[string]bool{}, orig: orig, pkgOf: map[string]string{}}
	for _, fl := range image.Files() {
		ex.pkgOf[fl.Path()] = fl.FileDescriptorProto().GetPackage()
	}
	namesExist := true
	for _, n := range f.Exclude {
		if l, ok := orig[n]; ok && isElem(l) {
			ex.names[n] = true
		} else if allPkgs[n] {
			ex.pkgs[n] = true
		} else {
			namesExist = false
		}
	}
	// --- total ---
	justified := !namesExist
	for _, n := range f.Include {
		l, ok := orig[n]
		switch {
		case ok && isElem(l):
			if !f.AllowImported && l.isImp {
				justified = true
			}
			if ex.has(n) {
				justified = true
			}
			for _, r := range refsOf(l) {
				if l.kind == "method" && ex.has(r) {
					justified = true
				}
				if l.kind == "ext" && ex.has(r) {
					justified = true // extendee (error) or value type (see includes check)
				}
			}
		case allPkgs[n]:
			onlyImported := true
			for _, pf := range pkgFiles[n] {
				if !pf.IsImport() {
					onlyImported = false
				}
			}
			if !f.AllowImported && onlyImported {
				justified = true
			}
			if ex.pkgs[n] && len(pkgFiles[n]) > 0 {
				justified = true
			}
		default:
			justified = true
		}
	}
	if err != nil {
		if errClass(err) == "empty" {
			return // nothing survives the filter: bufimage.NewImage refuses an image without files
		}
		if !justified {
			fail("filter-fails-on-existing-names", fmt.Sprintf("include=%v exclude=%v: all names exist and do not conflict, yet FilterImage fails: %v", f.Include, f.Exclude, err))
		}
		return
	}
	if out == nil {
		fail("nil-result", "FilterImage returned nil, nil")
		return
	}
	// --- copy mode ---
	if !f.InPlace {
		for i, fl := range image.Files() {
			if !proto.Equal(fl.FileDescriptorProto(), input.Files()[i].FileDescriptorProto()) {
				fail("copy-mode-mutated-input", "without WithMutateInPlace the input descriptor of "+fl.Path()+" was modified")
				break
			}
		}
	}
	got := locate(out)
	excludeOnly := len(f.Include) == 0
	// --- excludes absent and unreferenced ---
	var names []string
	for n := range got {
		names = append(names, n)
	}
	sort.Strings(names)
	for _, n := range names {
		l := got[n]
		if isElem(l) && ex.has(n) {
			fail("excluded-element-present", n+" is excluded but present in the result")
			break
		}
		bad := ""
		for _, r := range refsOf(l) {
			if ex.has(r) {
				bad = r
			}
		}
		if bad != "" {
			if excludeOnly && l.isImp {
				fail("exclude-only-import-file-not-closed", n+" (in non-target file "+l.file+") still refers to excluded "+bad)
			} else {
				fail("reference-to-excluded", n+" still refers to excluded "+bad)
			}
			break
		}
	}
	// --- links ---
	linked := true
	if _, lerr := protodesc.NewFiles(bufimage.ImageToFileDescriptorSet(out)); lerr != nil {
		linked = false
		fail(classifyLinkFailure(out, got, excludeOnly, lerr.Error()), "result does not link: "+lerr.Error())
	}
	// --- links, at option-value level ---
	if linked {
		optionValueOracle(run, pre, image, out, f, ex, orig, excludeOnly, mapOrderDependent, fail)
	}
	// --- minimal: every file / element / import of the result is needed by something that survives ---
	if linked {
		run.Count("minimal:results-judged")
		minimalityOracle(pre, image, out, f, orig, got, pkgFiles, fail)
	}
	// --- includes present ---
	includesPresent := true
	for _, n := range f.Include {
		l, ok := orig[n]
		if ok && isElem(l) {
			if _, present := got[n]; !present {
				includesPresent = false
				// (an included extension whose value type is excluded is an error now, like one whose
				// extendee is excluded: an absent included extension is an ordinary missing element)
				fail("included-element-missing", n+" was included but is absent from the result")
			}
			continue
		}
		for _, pf := range pkgFiles[n] {
			for on, ol := range orig {
				if ol.file == pf.Path() && (ol.kind == "msg" || ol.kind == "enum" || ol.kind == "svc") && !ex.has(on) {
					if _, present := got[on]; !present {
						fail("included-element-missing", on+" belongs to included package "+n+" but is absent from the result")
					}
				}
			}
		}
	}
	// --- survivors unchanged + comments ---
	origComments, gotComments := leadingComments(image), leadingComments(out)
	for _, n := range names {
		g := got[n]
		o, ok := orig[n]
		if !ok || o.kind != g.kind {
			fail("survivor-changed", n+" does not exist (with that kind) in the input image")
			break
		}
		if why := sameModuloDropped(o.desc, g.desc); why != "" {
			// (a kept oneof member that no longer names its oneof is a changed survivor like any
			// other: the oneof-index family is repaired, it has no class of its own any more)
			fail("survivor-changed", n+": "+why)
			break
		}
		oc, hadLoc := origComments[o.file][o.path]
		gc, hasLoc := gotComments[g.file][g.path]
		if hadLoc && !hasLoc {
			fail("comment-misattached", n+": its source location was lost")
			break
		}
		if gc != oc {
			if gm, isMsg := g.desc.(*descriptorpb.DescriptorProto); isMsg && gc == "" && len(gm.Field) == 0 {
				continue // namespace-only message: comments are dropped on purpose
			}
			fail("comment-misattached", fmt.Sprintf("%s: leading comment is %q, the element's own comment is %q", n, gc, oc))
			break
		}
	}
	// --- idempotent ---
	if linked && includesPresent && !orderDependent {
		gotPkgs, _ := packagesOf(out)
		g := f
		g.Exclude = nil
		for _, n := range f.Exclude {
			if resolvable(n, got, gotPkgs) {
				g.Exclude = append(g.Exclude, n)
			}
		}
		// an included package without files of its own contributed nothing (and may be gone)
		g.Include = nil
		for _, n := range f.Include {
			if _, isElemName := orig[n]; isElemName || len(pkgFiles[n]) > 0 {
				g.Include = append(g.Include, n)
			}
		}
		// an excluded custom option leaves its values behind in the options messages (documented in
		// bufimageutil_test.go); a second pass no longer knows the extension is excluded
		notIdem := "not-idempotent"
		for n, l := range orig {
			if l.kind != "ext" {
				continue
			}
			fd := l.desc.(*descriptorpb.FieldDescriptorProto)
			if !strings.HasPrefix(trimDot(fd.GetExtendee()), "google.protobuf.") || !strings.HasSuffix(fd.GetExtendee(), "Options") {
				continue
			}
			if ex.has(n) || (fd.TypeName != nil && ex.has(trimDot(fd.GetTypeName()))) {
				notIdem = "excluded-option-value-left-behind"
			}
		}
		// (an extension dropped for its excluded value type used to leave the import of its extendee's
		// file behind, which the second application removed: repaired, the family is an ordinary
		// "not-idempotent" failure again)
		if len(g.Include) > 0 || len(g.Exclude) > 0 {
			again, _, err2 := runFilter(out, g)
			switch {
			case err2 != nil:
				fail(notIdem, "filtering the result with the same filter fails: "+err2.Error())
			case len(again.Files()) != len(out.Files()):
				fail(notIdem, fmt.Sprintf("second application keeps %d files, first kept %d", len(again.Files()), len(out.Files())))
			default:
				for i, fl := range out.Files() {
					if fl.Path() != again.Files()[i].Path() || !proto.Equal(fl.FileDescriptorProto(), again.Files()[i].FileDescriptorProto()) {
						fail(notIdem, "second application changes "+fl.Path())
						if run.Only >= 0 {
							fmt.Printf("---- first\n%s\n---- second\n%s\n", prototextNoSCI(fl.FileDescriptorProto()), prototextNoSCI(again.Files()[i].FileDescriptorProto()))
						}
						break
					}
				}
			}
		}
	}
}

func classifyLinkFailure(out bufimage.Image, got map[string]located, excludeOnly bool, msg string) string {
	// a map field whose entry message lost its value field
	for _, l := range got {
		if m, ok := l.desc.(*descriptorpb.DescriptorProto); ok && m.GetOptions().GetMapEntry() && len(m.Field) != 2 {
			return "exclude-map-value-type-unlinkable"
		}
	}
	// (an out-of-range oneof index is no longer a recorded family: oneof indexes are renumbered
	// when a oneof is dropped, so such a result is a plain "result-does-not-link")
	// the element protodesc complains about (first quoted name) sits in a non-target file that an
	// exclude-only filter never visited
	if i := strings.IndexByte(msg, '"'); i >= 0 && excludeOnly {
		if j := strings.IndexByte(msg[i+1:], '"'); j >= 0 {
			if l, ok := got[msg[i+1:i+1+j]]; ok && l.isImp {
				return "exclude-only-import-file-not-closed"
			}
		}
	}
	deps := map[string]map[string]bool{}
	for _, fl := range out.Files() {
		d := map[string]bool{fl.Path(): true}
		for _, p := range fl.FileDescriptorProto().Dependency {
			d[p] = true
		}
		deps[fl.Path()] = d
	}
	onlyImports := true
	found := false
	for _, l := range got {
		for _, r := range refsOf(l) {
			t, ok := got[r]
			if !ok || !deps[l.file][t.file] {
				found = true
				if !l.isImp {
					onlyImports = false
				}
			}
		}
	}
	if found && onlyImports && excludeOnly {
		return "exclude-only-import-file-not-closed"
	}
	return "result-does-not-link"
}

func subsequenceByName[T interface{ GetName() string }](orig, got []T) bool {
	i := 0
	for _, g := range got {
		for i < len(orig) && orig[i].GetName() != g.GetName() {
			i++
		}
		if i == len(orig) {
			return false
		}
		i++
	}
	return true
}

// sameModuloDropped returns "" when got equals orig except for dropped children.
func sameModuloDropped(orig, got proto.Message) string {
	switch o := orig.(type) {
	case *descriptorpb.DescriptorProto:
		g := got.(*descriptorpb.DescriptorProto)
		if !proto.Equal(o.Options, g.Options) {
			return "message options changed"
		}
		if !subsequenceByName(o.NestedType, g.NestedType) || !subsequenceByName(o.EnumType, g.EnumType) || !subsequenceByName(o.Extension, g.Extension) {
			return "nested declarations are not a subsequence of the original's"
		}
		emptied := len(g.Field) == 0 && len(g.OneofDecl) == 0 && len(g.ExtensionRange) == 0 && len(g.ReservedRange) == 0 && len(g.ReservedName) == 0
		if emptied {
			return "" // kept as a namespace only (or all of its fields were dropped)
		}
		if !subsequenceByName(o.Field, g.Field) || !subsequenceByName(o.OneofDecl, g.OneofDecl) {
			return "fields/oneofs are not a subsequence of the original's"
		}
		tmp := &descriptorpb.DescriptorProto{ExtensionRange: o.ExtensionRange, ReservedRange: o.ReservedRange, ReservedName: o.ReservedName}
		tmp2 := &descriptorpb.DescriptorProto{ExtensionRange: g.ExtensionRange, ReservedRange: g.ReservedRange, ReservedName: g.ReservedName}
		if !proto.Equal(tmp, tmp2) {
			return "extension/reserved ranges changed"
		}
		// every kept oneof member must still sit in the oneof with the same name
		for _, gf := range g.Field {
			if gf.OneofIndex == nil {
				continue
			}
			var of *descriptorpb.FieldDescriptorProto
			for _, x := range o.Field {
				if x.GetName() == gf.GetName() {
					of = x
				}
			}
			if of == nil || of.OneofIndex == nil {
				return "oneof membership of " + gf.GetName() + " changed"
			}
			if int(gf.GetOneofIndex()) >= len(g.OneofDecl) || g.OneofDecl[gf.GetOneofIndex()].GetName() != o.OneofDecl[of.GetOneofIndex()].GetName() {
				return "oneof index of field " + gf.GetName() + " no longer names its oneof"
			}
		}
		return ""
	case *descriptorpb.FieldDescriptorProto:
		g := proto.Clone(got).(*descriptorpb.FieldDescriptorProto)
		oc := proto.Clone(o).(*descriptorpb.FieldDescriptorProto)
		g.OneofIndex, oc.OneofIndex = nil, nil
		if !proto.Equal(oc, g) {
			return "field descriptor changed"
		}
		return ""
	case *descriptorpb.ServiceDescriptorProto:
		g := got.(*descriptorpb.ServiceDescriptorProto)
		if !proto.Equal(o.Options, g.Options) || !subsequenceByName(o.Method, g.Method) {
			return "service changed beyond dropped methods"
		}
		return ""
	default:
		if !proto.Equal(orig, got) {
			return "descriptor changed"
		}
		return ""
	}
}

// extensionsOrderIndependent: conservative static criterion under which transitiveClosure.addExtensions
// (which inserts into the map it ranges over) cannot depend on Go's map iteration order: adding any
// extension never reaches an extendable message other than its own extendee.
func extensionsOrderIndependent(image bufimage.Image, pre *prepared) bool {
	orig := locate(image)
	extd := map[string]bool{}
	for _, l := range orig {
		if l.kind == "ext" {
			extd[trimDot(l.desc.(*descriptorpb.FieldDescriptorProto).GetExtendee())] = true
		}
	}
	fileOpts := map[string]proto.Message{}
	for _, fl := range image.Files() {
		if fl.FileDescriptorProto().Options != nil {
			fileOpts[fl.Path()] = fl.FileDescriptorProto().Options
		}
	}
	optRefs := func(options proto.Message, implicitOK map[string]bool) []string {
		var out []string
		if options == nil || !options.ProtoReflect().IsValid() {
			return nil
		}
		x := &extractor{n: pre.names, elems: pre.elems}
		options.ProtoReflect().Range(func(fd protoreflect.FieldDescriptor, v protoreflect.Value) bool {
			if !fd.IsExtension() {
				return true
			}
			out = append(out, string(fd.FullName()))
			implicitOK[string(fd.ContainingMessage().FullName())] = true
			var anys []int
			x.anyPayloads(fd, v, &anys)
			for _, a := range anys {
				out = append(out, pre.names.list[a-1])
			}
			return true
		})
		return out
	}
	succ := func(name string, implicitOK map[string]bool) []string {
		l, ok := orig[name]
		if !ok {
			return nil
		}
		var out []string
		var own proto.Message
		switch d := l.desc.(type) {
		case *descriptorpb.DescriptorProto:
			if d.Options != nil {
				own = d.Options
			}
			for _, fd := range d.Field {
				if fd.TypeName != nil {
					out = append(out, trimDot(fd.GetTypeName()))
				}
				if fd.Options != nil {
					out = append(out, optRefs(fd.Options, implicitOK)...)
				}
			}
			for _, oo := range d.OneofDecl {
				if oo.Options != nil {
					out = append(out, optRefs(oo.Options, implicitOK)...)
				}
			}
			for _, er := range d.ExtensionRange {
				if er.Options != nil {
					out = append(out, optRefs(er.Options, implicitOK)...)
				}
			}
		case *descriptorpb.EnumDescriptorProto:
			if d.Options != nil {
				own = d.Options
			}
			for _, v := range d.Value {
				if v.Options != nil {
					out = append(out, optRefs(v.Options, implicitOK)...)
				}
			}
		case *descriptorpb.FieldDescriptorProto:
			if d.Options != nil {
				own = d.Options
			}
			if d.TypeName != nil {
				out = append(out, trimDot(d.GetTypeName()))
			}
		}
		if own != nil {
			out = append(out, optRefs(own, implicitOK)...)
		}
		// enclosing messages' options and the file's options
		for p := l.parent; p != ""; {
			pl, ok := orig[p]
			if !ok {
				break
			}
			if m, isMsg := pl.desc.(*descriptorpb.DescriptorProto); isMsg && m.Options != nil {
				out = append(out, optRefs(m.Options, implicitOK)...)
			}
			p = pl.parent
		}
		if fo, ok := fileOpts[l.file]; ok {
			out = append(out, optRefs(fo, implicitOK)...)
		}
		return out
	}
	for name, l := range orig {
		if l.kind != "ext" {
			continue
		}
		own := trimDot(l.desc.(*descriptorpb.FieldDescriptorProto).GetExtendee())
		seen := map[string]bool{name: true}
		implicit := map[string]bool{}
		queue := []string{name}
		for len(queue) > 0 {
			cur := queue[0]
			queue = queue[1:]
			for _, s := range succ(cur, implicit) {
				if seen[s] {
					continue
				}
				seen[s] = true
				if extd[s] && s != own {
					return false
				}
				queue = append(queue, s)
			}
			// an option extension pulls in its extendee implicitly (its fields are walked)
			if cl, ok := orig[cur]; ok && cl.kind == "ext" && cur != name {
				e := trimDot(cl.desc.(*descriptorpb.FieldDescriptorProto).GetExtendee())
				if !seen[e] {
					seen[e] = true
					queue = append(queue, e)
				}
			}
		}
	}
	return true
}

func prototextNoSCI(fd *descriptorpb.FileDescriptorProto) string {
	c := proto.Clone(fd).(*descriptorpb.FileDescriptorProto)
	c.SourceCodeInfo = nil
	return prototext.MarshalOptions{Multiline: true}.Format(c)
}
