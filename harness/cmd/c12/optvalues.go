package main

// The "links" clause of C12 at OPTION-VALUE level (implementation only, no Lean model involved):
// every type that is needed to decode a custom option value which survives in the filtered image
// is itself in the filtered image.
//
// Both the input image and the filtered image are re-resolved against THEIR OWN descriptors only
// (protodesc.NewFiles -> dynamicpb.NewTypes -> re-unmarshal of every file descriptor with that
// resolver), so an option whose extension is gone shows up as unknown bytes, an extension used
// inside an option value that is gone shows up as unknown bytes of the value, and an Any payload
// whose message is gone cannot be found by its type URL.
//
//	custom-option-definition-missing   an element kept by the filter carries a custom option whose
//	                                   extension is not in the result
//	option-any-payload-missing         a google.protobuf.Any inside a surviving option value names a
//	                                   message of the input image that is not in the result
//	option-any-payload-undecodable     ... or its payload bytes do not decode against the result
//	option-value-extension-missing     an extension used inside a surviving option value is not in
//	                                   the result
//	option-value-type-missing          a message / enum type of (a part of) a surviving option value
//	                                   is not in the result
//	option-value-undecodable           the value has unknown fields that none of the above explains
//
// Absences the filter was ASKED for are not failures: the missing name is excluded (by name, by an
// enclosing message, by its package, or - for extensions - through its extendee or value type),
// custom options are switched off (exclude_custom_options), or - for extensions inside values -
// known extensions are switched off (exclude_known_extensions).

import (
	"fmt"
	"sort"
	"strings"

	"github.com/bufbuild/buf/private/bufpkg/bufimage"
	"github.com/bufbuild/protocompile/walk"
	"github.com/bufbuild/verifharness/internal/hx"
	"google.golang.org/protobuf/proto"
	"google.golang.org/protobuf/reflect/protodesc"
	"google.golang.org/protobuf/reflect/protoreflect"
	"google.golang.org/protobuf/reflect/protoregistry"
	"google.golang.org/protobuf/types/descriptorpb"
	"google.golang.org/protobuf/types/dynamicpb"
)

type optSite struct {
	key   string // "<kind>:<full name | file path>[#index]"
	kind  string // file msg field ext oneof enum value svc method range
	owner string
	file  string
	isImp bool
	opts  protoreflect.Message
}

type resolvedImage struct {
	files *protoregistry.Files
	types *dynamicpb.Types
	sites map[string]*optSite
	order []string
	err   error
}

func optionsOf(msg proto.Message) protoreflect.Message {
	m := msg.ProtoReflect()
	fd := m.Descriptor().Fields().ByName("options")
	if fd == nil || !m.Has(fd) {
		return nil
	}
	return m.Get(fd).Message()
}

// resolveImage re-resolves every options message of the image against the image's own files.
func resolveImage(image bufimage.Image) (res *resolvedImage) {
	res = &resolvedImage{sites: map[string]*optSite{}}
	defer func() {
		if p := recover(); p != nil {
			res.err = fmt.Errorf("panic: %v", p)
		}
	}()
	files, err := protodesc.NewFiles(bufimage.ImageToFileDescriptorSet(image))
	if err != nil {
		res.err = err
		return res
	}
	res.files = files
	res.types = dynamicpb.NewTypes(files)
	add := func(kind, owner string, f bufimage.ImageFile, idx int, m proto.Message) {
		o := optionsOf(m)
		if o == nil {
			return
		}
		key := kind + ":" + owner
		if kind == "file" {
			key = "file:" + f.Path()
		}
		if idx >= 0 {
			key += fmt.Sprintf("#%d", idx)
		}
		res.sites[key] = &optSite{key: key, kind: kind, owner: owner, file: f.Path(), isImp: f.IsImport(), opts: o}
		res.order = append(res.order, key)
	}
	for _, f := range image.Files() {
		b, err := proto.Marshal(f.FileDescriptorProto())
		if err != nil {
			res.err = err
			return res
		}
		fresh := &descriptorpb.FileDescriptorProto{}
		if err := (proto.UnmarshalOptions{Resolver: res.types}).Unmarshal(b, fresh); err != nil {
			res.err = fmt.Errorf("%s: %w", f.Path(), err)
			return res
		}
		add("file", "", f, -1, fresh)
		_ = walk.DescriptorProtos(fresh, func(name protoreflect.FullName, msg proto.Message) error {
			switch d := msg.(type) {
			case *descriptorpb.DescriptorProto:
				add("msg", string(name), f, -1, d)
				for i, er := range d.ExtensionRange {
					add("range", string(name), f, i, er)
				}
			case *descriptorpb.FieldDescriptorProto:
				if d.Extendee != nil {
					add("ext", string(name), f, -1, d)
				} else {
					add("field", string(name), f, -1, d)
				}
			case *descriptorpb.OneofDescriptorProto:
				add("oneof", string(name), f, -1, d)
			case *descriptorpb.EnumDescriptorProto:
				add("enum", string(name), f, -1, d)
			case *descriptorpb.EnumValueDescriptorProto:
				add("value", string(name), f, -1, d)
			case *descriptorpb.ServiceDescriptorProto:
				add("svc", string(name), f, -1, d)
			case *descriptorpb.MethodDescriptorProto:
				add("method", string(name), f, -1, d)
			}
			return nil
		})
	}
	return res
}

// need is one name a value needs in order to be decoded.
type need struct {
	kind string // message-type enum-type extension any-payload any-payload-nested
	name string
	at   string // where inside the value
}

func anyName(url string) string { return url[strings.LastIndexByte(url, '/')+1:] }

// valueNeeds walks an option value (resolved against `in`) and lists what decoding it needs.
func valueNeeds(in *resolvedImage, fd protoreflect.FieldDescriptor, val protoreflect.Value, at string, nested bool, out *[]need) {
	isMsg := func(k protoreflect.Kind) bool { return k == protoreflect.MessageKind || k == protoreflect.GroupKind }
	switch {
	case fd.IsMap():
		vd := fd.MapValue()
		if vd.Kind() == protoreflect.EnumKind {
			*out = append(*out, need{"enum-type", string(vd.Enum().FullName()), at})
		}
		if isMsg(vd.Kind()) {
			type kv struct {
				k string
				v protoreflect.Message
			}
			var kvs []kv
			val.Map().Range(func(k protoreflect.MapKey, v protoreflect.Value) bool {
				kvs = append(kvs, kv{k.String(), v.Message()})
				return true
			})
			sort.Slice(kvs, func(i, j int) bool { return kvs[i].k < kvs[j].k })
			for _, e := range kvs {
				messageNeeds(in, e.v, at+"["+e.k+"]", nested, out)
			}
		}
	case fd.Kind() == protoreflect.EnumKind:
		*out = append(*out, need{"enum-type", string(fd.Enum().FullName()), at})
	case isMsg(fd.Kind()):
		if fd.IsList() {
			l := val.List()
			for i := 0; i < l.Len(); i++ {
				messageNeeds(in, l.Get(i).Message(), fmt.Sprintf("%s[%d]", at, i), nested, out)
			}
		} else {
			messageNeeds(in, val.Message(), at, nested, out)
		}
	}
}

func messageNeeds(in *resolvedImage, msg protoreflect.Message, at string, nested bool, out *[]need) {
	md := msg.Descriptor()
	*out = append(*out, need{"message-type", string(md.FullName()), at})
	if md.FullName() == "google.protobuf.Any" {
		url := msg.Get(md.Fields().ByNumber(1)).String()
		name := anyName(url)
		d, err := in.files.FindDescriptorByName(protoreflect.FullName(name))
		if err != nil {
			return // names nothing in the image
		}
		pmd, ok := d.(protoreflect.MessageDescriptor)
		if !ok {
			return // names something that is not a message
		}
		kind := "any-payload"
		if nested {
			kind = "any-payload-nested"
		}
		*out = append(*out, need{kind, name, at + "<" + url + ">"})
		payload := dynamicpb.NewMessage(pmd)
		if err := (proto.UnmarshalOptions{Resolver: in.types}).Unmarshal(msg.Get(md.Fields().ByNumber(2)).Bytes(), payload); err == nil {
			var inner []need
			rangeSorted(payload, func(fd protoreflect.FieldDescriptor, v protoreflect.Value) {
				if fd.IsExtension() {
					inner = append(inner, need{"extension", string(fd.FullName()), at})
				}
				valueNeeds(in, fd, v, at+"."+string(fd.Name()), true, &inner)
			})
			// Only Anys nested INSIDE a payload are beyond what the payload's own message brings along.
			for _, n := range inner {
				if n.kind == "any-payload-nested" {
					*out = append(*out, n)
				}
			}
		}
		return
	}
	rangeSorted(msg, func(fd protoreflect.FieldDescriptor, v protoreflect.Value) {
		sub := at + "." + string(fd.Name())
		if fd.IsExtension() {
			sub = at + ".[" + string(fd.FullName()) + "]"
			*out = append(*out, need{"extension", string(fd.FullName()), sub})
		}
		valueNeeds(in, fd, v, sub, nested, out)
	})
}

func rangeSorted(msg protoreflect.Message, f func(protoreflect.FieldDescriptor, protoreflect.Value)) {
	type fv struct {
		fd protoreflect.FieldDescriptor
		v  protoreflect.Value
	}
	var fvs []fv
	msg.Range(func(fd protoreflect.FieldDescriptor, v protoreflect.Value) bool {
		fvs = append(fvs, fv{fd, v})
		return true
	})
	sort.Slice(fvs, func(i, j int) bool {
		if fvs[i].fd.Number() != fvs[j].fd.Number() {
			return fvs[i].fd.Number() < fvs[j].fd.Number()
		}
		return fvs[i].fd.FullName() < fvs[j].fd.FullName()
	})
	for _, e := range fvs {
		f(e.fd, e.v)
	}
}

// undecodable walks a value resolved against the RESULT only: unknown bytes anywhere, Any payloads
// that cannot be found or decoded.
type decodeProblem struct {
	kind string // unknown-fields any-missing any-undecodable
	name string
	at   string
}

func decodeProblems(out *resolvedImage, msg protoreflect.Message, at string, probs *[]decodeProblem) {
	if len(msg.GetUnknown()) > 0 {
		*probs = append(*probs, decodeProblem{"unknown-fields", string(msg.Descriptor().FullName()), at})
	}
	md := msg.Descriptor()
	if md.FullName() == "google.protobuf.Any" {
		url := msg.Get(md.Fields().ByNumber(1)).String()
		name := anyName(url)
		mt, err := out.types.FindMessageByURL(url)
		if err != nil {
			*probs = append(*probs, decodeProblem{"any-missing", name, at + "<" + url + ">"})
			return
		}
		payload := mt.New()
		if err := (proto.UnmarshalOptions{Resolver: out.types}).Unmarshal(msg.Get(md.Fields().ByNumber(2)).Bytes(), payload.Interface()); err != nil {
			*probs = append(*probs, decodeProblem{"any-undecodable", name, at + "<" + url + ">: " + err.Error()})
		}
		return
	}
	rangeSorted(msg, func(fd protoreflect.FieldDescriptor, v protoreflect.Value) {
		isMsg := fd.Kind() == protoreflect.MessageKind || fd.Kind() == protoreflect.GroupKind
		sub := at + "." + string(fd.Name())
		switch {
		case fd.IsMap():
			if k := fd.MapValue().Kind(); k == protoreflect.MessageKind || k == protoreflect.GroupKind {
				v.Map().Range(func(mk protoreflect.MapKey, mv protoreflect.Value) bool {
					decodeProblems(out, mv.Message(), sub+"["+mk.String()+"]", probs)
					return true
				})
			}
		case isMsg && fd.IsList():
			for i := 0; i < v.List().Len(); i++ {
				decodeProblems(out, v.List().Get(i).Message(), fmt.Sprintf("%s[%d]", sub, i), probs)
			}
		case isMsg:
			decodeProblems(out, v.Message(), sub, probs)
		}
	})
}

// optionValueOracle is called for a filtered image that links.
//
// mapOrderDependent: the workspace is one where transitiveClosure.addExtensions (which inserts into
// the map it ranges over) may or may not visit a message that becomes explicit during the loop, so
// whether that message's extensions are kept differs from run to run on the same input (see
// extensionsOrderIndependent).  A missing extension inside an option value is then counted as an
// observation (it cannot be a stable verdict), not reported.
func optionValueOracle(run *hx.Run, pre *prepared, image, out bufimage.Image, f filterSpec, ex *excluded, orig map[string]located,
	excludeOnly, mapOrderDependent bool, fail func(class, what string)) {
	if f.NoCustomOpts {
		// exclude_custom_options: the filter was asked not to follow custom options at all (their
		// values stay behind as they are; an extension may still be kept as a known extension).
		run.Count("optvalues:custom-options-switched-off(not judged)")
		return
	}
	in := pre.resolvedInput(image)
	if in.err != nil {
		run.Count("optvalues:input-not-resolvable")
		return
	}
	if len(in.order) == 0 {
		return
	}
	res := resolveImage(out)
	if res.err != nil {
		fail("option-values-not-resolvable", "the filtered image links but its options cannot be re-resolved against it: "+res.err.Error())
		return
	}
	// extExcluded: the filter was asked to drop this extension.
	extExcluded := func(name string) bool {
		if ex.has(name) {
			return true
		}
		if l, ok := orig[name]; ok {
			for _, r := range refsOf(l) {
				if ex.has(r) {
					return true
				}
			}
		}
		return false
	}
	reported := map[string]bool{}
	curImp := false
	report := func(class, what string) {
		if excludeOnly && curImp {
			// recorded family: an exclude-only filter keeps the unvisited elements of non-target files
			// (hasType(unknown) = true) without ever walking them - nor, therefore, their options
			class, what = "exclude-only-import-file-not-closed", "(unvisited element of a non-target file) "+what
		}
		if !reported[class] {
			reported[class] = true
			fail(class, what)
		}
	}
	for _, key := range res.order {
		os := res.sites[key]
		curImp = os.isImp
		is, ok := in.sites[key]
		if !ok {
			continue
		}
		where := os.kind + " " + os.owner
		if os.kind == "file" {
			where = "file " + os.file
		}
		rangeSorted(is.opts, func(fd protoreflect.FieldDescriptor, val protoreflect.Value) {
			if !fd.IsExtension() {
				return
			}
			extName := string(fd.FullName())
			run.Count("optvalues:option-uses-checked")
			xt, err := res.types.FindExtensionByName(fd.FullName())
			if err != nil {
				switch {
				case extExcluded(extName):
					run.Count("optvalues:option-definition-absent-as-requested")
				default:
					report("custom-option-definition-missing", where+" is in the result and uses custom option ("+extName+"), but the extension is not in the result")
				}
				return
			}
			// what the value needs, judged on the input
			var needs []need
			valueNeeds(in, fd, val, "("+extName+")", false, &needs)
			var missing []need
			explained := false
			// a part of the value whose own message type is excluded is gone as requested, with
			// everything inside it
			var gone []string
			for _, n := range needs {
				if n.kind == "message-type" && ex.has(n.name) {
					gone = append(gone, n.at)
				}
			}
			for _, n := range needs {
				if _, err := res.files.FindDescriptorByName(protoreflect.FullName(n.name)); err == nil {
					continue
				}
				inside := false
				for _, g := range gone {
					inside = inside || strings.HasPrefix(n.at, g)
				}
				if inside {
					explained = true
					continue
				}
				switch n.kind {
				case "any-payload-nested":
					run.Count("observed:any-nested-inside-any-payload-not-in-result(TODO in exploreOptionSingularValueForAny)")
					continue
				case "any-payload":
					if ex.has(n.name) {
						run.Count("optvalues:any-payload-absent-as-requested(excluded)")
						continue
					}
				case "extension":
					if f.NoKnownExts || extExcluded(n.name) {
						run.Count("optvalues:value-extension-absent-as-requested")
						explained = true
						continue
					}
					if mapOrderDependent {
						run.Count("observed:extension-used-inside-option-value-not-in-result(addExtensions map-order dependent workspace)")
						explained = true
						continue
					}
				default:
					if ex.has(n.name) {
						explained = true
						continue
					}
				}
				missing = append(missing, n)
			}
			for _, n := range missing {
				class := map[string]string{"any-payload": "option-any-payload-missing", "extension": "option-value-extension-missing",
					"message-type": "option-value-type-missing", "enum-type": "option-value-type-missing"}[n.kind]
				report(class, fmt.Sprintf("%s keeps option %s whose value needs %s %s, which is not in the result", where, n.at, n.kind, n.name))
			}
			// the value as the result alone decodes it
			if !os.opts.Has(xt.TypeDescriptor()) {
				report("option-value-lost", where+": option ("+extName+") is defined in the result but its value is gone")
				return
			}
			collect := func(ri *resolvedImage, xd protoreflect.FieldDescriptor, v protoreflect.Value) []decodeProblem {
				var probs []decodeProblem
				if xd.Kind() == protoreflect.MessageKind || xd.Kind() == protoreflect.GroupKind {
					if xd.IsList() {
						for i := 0; i < v.List().Len(); i++ {
							decodeProblems(ri, v.List().Get(i).Message(), fmt.Sprintf("(%s)[%d]", extName, i), &probs)
						}
					} else {
						decodeProblems(ri, v.Message(), "("+extName+")", &probs)
					}
				}
				return probs
			}
			// problems the INPUT value already has when decoded against the input are not the filter's
			already := map[string]bool{}
			for _, p := range collect(in, fd, val) {
				already[p.kind+"@"+p.at] = true
			}
			for _, p := range collect(res, xt.TypeDescriptor(), os.opts.Get(xt.TypeDescriptor())) {
				if already[p.kind+"@"+p.at] {
					continue
				}
				switch p.kind {
				case "any-missing":
					if _, err := in.files.FindDescriptorByName(protoreflect.FullName(p.name)); err != nil {
						continue // the URL names nothing in the input image either
					}
					if d, _ := in.files.FindDescriptorByName(protoreflect.FullName(p.name)); d != nil {
						if _, isMsg := d.(protoreflect.MessageDescriptor); !isMsg {
							continue
						}
					}
					if ex.has(p.name) {
						continue
					}
					report("option-any-payload-missing", fmt.Sprintf("%s keeps option %s: the Any's message %s cannot be resolved against the result", where, p.at, p.name))
				case "any-undecodable":
					report("option-any-payload-undecodable", fmt.Sprintf("%s keeps option %s", where, p.at))
				case "unknown-fields":
					if !explained && len(missing) == 0 {
						report("option-value-undecodable", fmt.Sprintf("%s keeps option %s: %s has unknown fields when decoded against the result only", where, p.at, p.name))
					}
				}
			}
		})
	}
}
