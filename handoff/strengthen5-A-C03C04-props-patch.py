#!/usr/bin/env python3
"""Patch bin/props.py in place (C03 and C04 `rule` texts) - strengthening round 5-A.
usage: strengthen5-A-C03C04-props-patch.py /verif/bin/props.py
Every anchor must occur exactly once; otherwise nothing is written."""
import sys

path = sys.argv[1]
s = open(path).read()

EDITS = [
    # C03: the alias family + the Absent clause of the oracle
    ("every expected (rule, file, element location) is present in every configuration where the rule is active.",
     "every expected (rule, file, element location) is present in every configuration where the rule is active; "
     "where the rule documentation EXEMPTS the planted edit (all names / the number reserved, the number still has a value) "
     "the rule must not report at that element (class C03-spurious-<rule>). "
     "The plan is stratified: every operator x every kind of element it applies to x every file syntax (proto2 / proto3 / editions). "
     "ALIAS family of the four enum-value rules (ENUM_VALUE_NO_DELETE, ..._UNLESS_NUMBER_RESERVED, ..._UNLESS_NAME_RESERVED, ENUM_VALUE_SAME_NAME): "
     "allow_alias enums (top-level and nested, open and closed, proto2 / proto3 / editions) whose numbers have 1, 2 or 3 names, zero and negative numbers included, "
     "names of one number not adjacent in declaration order; operators delete a WHOLE number (1 / 2 / 3 names) reserving nothing / the number / "
     "all names / both / only SOME of the names (first, last or middle ones) / a range holding the number at its lower end, upper end or inside / "
     "ranges merely next to, around (hole at the number) or far from it / names that merely resemble the deleted ones plus the full reservation of ANOTHER deleted number; "
     "or delete ONE or TWO of several names of a number (first / middle / last declared, with or without reserving the name), move a name to another number, rename one of several names; "
     "expectations written from the rule documentation (number gone => NO_DELETE; ... and number not inside a reserved range => NUMBER rule; ... and not EVERY previous name reserved => NAME rule; "
     "a number that still exists and lost a previous name => SAME_NAME at the number of every remaining name, and none of the three deletion rules)."),
    # C04: section G + subject clause
    ("(and single-rule configs on a sample); the sorted sets of (rule id, file, source path of the element) are compared with the Lean model on the same pair (encoded from the compiled descriptors).",
     "(and single-rule configs on a sample); the sorted sets of (rule id, file, source path of the element) are compared with the Lean model on the same pair (encoded from the compiled descriptors). "
     "Section G (catalogue): the hierarchy clause on EVERY pair the C03 edit catalogue produces - the stratified C03 plan from the same seed "
     "(every breaking-edit operator x every kind of element: field shape x type incl. group / delimited by a field feature / delimited inherited from the file, map, oneof member, extension; "
     "message depth class; enum position x closedness x number of names; x every file syntax; alone or mixed with additive edits): each planted pair is evaluated under "
     "FILE, PACKAGE, WIRE_JSON, WIRE x v1beta1 / v1 / v2 (quick: real single-category runs under one rotating version + one real all-categories run split by the spec's category lists under the other two; "
     "every 6th pair 12 real runs + a `pair` line). Hierarchy oracle, on every not-necessarily-clean pair of every section: (1) stricter category clean => laxer category clean "
     "(C04-hierarchy-<v>-<S>-<L>); (2) per SUBJECT: every annotation of the laxer category is about an element (file + source path cut back to the innermost message / field / enum / "
     "enum value / service / RPC / oneof / extension, whatever the rule id) that the stricter category reports too, itself or an element / file containing it "
     "(C04-hierarchy-subject-<v>-<S>-<L>); a failure names the edit, its site and the annotations of all four categories."),
]

for old, new in EDITS:
    if s.count(old) != 1:
        sys.exit("anchor not found exactly once (%d): %s" % (s.count(old), old[:70]))
    s = s.replace(old, new)
open(path, "w").write(s)
print("patched", path)
