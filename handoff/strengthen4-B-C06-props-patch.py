#!/usr/bin/env python3
"""Patch the C06 `rule` text of bin/props.py in place (strengthening round 4-B).
usage: python3 handoff/strengthen4-B-C06-props-patch.py [path/to/bin/props.py]"""
import sys
path = sys.argv[1] if len(sys.argv) > 1 else "bin/props.py"
s = open(path).read()

OLD1 = "Section E (comment placement): 150 (thorough 450) modules"
NEW1 = "Section E (comment placement): 150 (thorough 270) modules"

OLD2 = " A line is non-trivial when the configuration is rejected, selects a non-default rule set, or reports at least one annotation; distinct = distinct protocol lines."
NEW2 = (
    " Section F (import-only files sharing packages / directories with targets; ignore paths splitting a cross-file violation): 21 (thorough 72) small"
    " workspaces - two target files, two import-only files the targets import, a shared types file, optional package-cycle files and unused / public"
    " import files; every file carries per-element violations (names, comments, required field) - in which, for EVERY cross-file lint rule"
    " (PACKAGE_SAME_DIRECTORY, PACKAGE_SAME_{GO_PACKAGE, JAVA_PACKAGE, JAVA_MULTIPLE_FILES, CSHARP_NAMESPACE, PHP_NAMESPACE, RUBY_PACKAGE, SWIFT_PREFIX},"
    " DIRECTORY_SAME_PACKAGE, PACKAGE_DIRECTORY_MATCH, RPC_REQUEST_RESPONSE_UNIQUE, PACKAGE_NO_IMPORT_CYCLE, IMPORT_USED, IMPORT_NO_PUBLIC), the files get their"
    " attribute (option value / no option statement, directory, package, rpc request type, import edges) from a pattern: disagreement only between a target and"
    " an import, between the two targets with an agreeing import, between the two targets with an import holding a third value, only among the imports, none;"
    " the first 15 workspaces enumerate rule x pattern deterministically (evidence extra imports_strata_not_reached must be []), later ones draw at random."
    " Each workspace is built FOUR ways: all files targets (control), one module with bufmodule.LocalModuleWithTargetPaths (target paths or exclude paths),"
    " bufimage.ImageWithOnlyPaths / ImageWithOnlyPathsAllowNotExist on the full image, and a target module plus a NON-targeted dependency module"
    " (bufmoduletesting.ModuleData{NotTargeted}) contributing files to the same packages and directories. Client.Lint with all live lint rules except"
    " PROTOVALIDATE (v1beta1 / v1 / v2) vs the model (check lines; the model drops, for lint, every measured annotation located in a file whose import bit is"
    " set: runCheckH / handlerView), and vs an implementation-only oracle: no rule run alone and no report locates an annotation in a file that is not a"
    " target of the build (targets known from the workspace, import flags of the image checked against it); per cross-file rule the set of annotated files is"
    " what the rule's documentation gives on the TARGET files alone (imports neither reported nor compared; PACKAGE_NO_IMPORT_CYCLE as coded: the cycle may"
    " run through import-only packages, only import statements of targets are reported); the three targeted builds report the same; replacing the content of"
    " the import-only files by neutral stubs (same paths, packages, type names) leaves the report unchanged except for PACKAGE_NO_IMPORT_CYCLE. Ignore"
    " family: for every cross-file rule x {ignore: files, ignore: directories, ignore_only: rule, ignore_only: category} x v1beta1 / v1 / v2 x {all-target"
    " image, targeted image} (quota 1, thorough 2 per stratum; ignore_split_strata_not_reached must be []) the participants of a violation that disagree"
    " with the first target are put under the path; oracle: report(with) == {a in report(without) | a's file not covered (and, ignore_only, a's rule in the"
    " key)}. Section C additionally has 3 (thorough 6) breaking image pairs in which the import-only files a/v1/b.proto, a/v1/c.proto share package and"
    " directory with the only target a/v1/a.proto (messages moving between target and import, changes inside the imports), built the same three ways with equal or"
    " different import flags on the two sides."
    + OLD2
)
for old, new in ((OLD1, NEW1), (OLD2, NEW2)):
    if s.count(old) != 1:
        sys.exit("expected exactly one occurrence of %r in %s (found %d)" % (old[:60], path, s.count(old)))
    s = s.replace(old, new)
open(path, "w").write(s)
print("patched", path)
