#!/usr/bin/env python3
"""Patch the C02 `rule` / `trusted_base` text of bin/props.py in place (strengthening round 6-E, helper b:
multi-failure family, multi-client family).
usage: python3 handoff/strengthen6-E-b-C02-props-patch.py [path/to/bin/props.py]"""
import sys
path = sys.argv[1] if len(sys.argv) > 1 else "bin/props.py"
s = open(path).read()

OLD1 = " `build/c02 ... await [k]` runs the part (one scenario) alone.\","
NEW1 = (
    " `build/c02 ... await [k]` runs the part (one scenario) alone."
    " Parts B-multifail / E-multifail (multi-failure family, harness/cmd/c02/multifail.go; 36 members in quick, 144 per seed in thorough, stratified by index:"
    " shape flat / deeper (root -> healthy module -> failing ones) / mixed x 2-4 failing dependencies x kind, 4 of the 8 kind sets per quick run by seed): workspaces in which the"
    " module-dependency traversal (Module.ModuleDeps(), ModuleSetToDAG, the b5 digest) FAILS IN SEVERAL DEPENDENCIES at once - a missing import in the dependency"
    " (ImportNotExistError), the dependency imports back into the root (ModuleCycleError, several cycles through one module), a dependency without .proto files reached"
    " through an import of its LICENSE / README (NoProtoFilesError), a dependency file the import scan cannot parse (FileAnnotationSet), mixed. Every dependency is"
    " discovered from its own file of the parent (sometimes two by one file, written against the id order), the files sit in directories foo / foo-bar / foo.d / fop (memory"
    " and disk buckets enumerate them differently), and file order and OpaqueID order are unrelated permutations. In-process: ModuleDeps() of EVERY module (error text or"
    " dependency list), ModuleSetToDAG and the b5 digest of every module, compared between the reference (walk as stored, modules as listed) and 8 variations (14 in"
    " thorough): walk reversed / shuffled (all modules), a disk bucket instead of a memory bucket (the scratch prefix of external paths removed, nothing else), modules"
    " handed to the builder in permuted order, ModuleDeps() asked in permuted module order (results are memoised), GOMAXPROCS 1/2/16. Binary: 2 members (8 in thorough) on"
    " disk, buf.yaml `modules:` in 3 orders x GOMAXPROCS unset/1/2/16/unset: `buf dep graph`, `buf dep graph --format json`, `buf ls-files`, `buf build` (build only without"
    " module cycles: compile diagnostics of file cycles are the recorded finding import-cycle-diagnostics-vary). Oracle classes: multifail-error-walk-order-dependent,"
    " multifail-error-module-order-dependent, multifail-error-query-order-dependent, multifail-error-gomaxprocs-dependent (named after what the variation changed),"
    " multifail-verdict, multifail-panic, binary-multifail-nondeterministic-<cmd>, binary-multifail-status. Correspondence lines `mfail <modules in OpaqueID order, files in"
    " the order THIS run's walk reported them> <root>` and `mfdag <modules>` (one per distinct (walk, module), ~1300 in quick): the dependency list or the IDENTITY of the"
    " error (cycle:<ranks>, noimport:<file>:<import>, noproto:<rank>, parse:<file>) against BufModel.MultiFail.moduleDepsE / toDAGE (Graph.depsRec with identities; the descent"
    " visits new dependencies in OpaqueID order). As coded: a module with TWO failing files of its own reports the one its storage enumerated first - members of kind"
    " `within` count that (`MF:observed:within-module-error-follows-walk-order`, switch reportWithinModuleWalkOrder) and are not judged. `--only 5000000+k keep` replays member k"
    " (workspace left under <out>/multifail-k), `build/c02 ... multifail` runs the family alone."
    " Part B-mclient (multi-client family, harness/cmd/c02/multiclient.go; 32 members in quick, 96 per seed in thorough: 2-5 plugin clients, the failing subset taken from the"
    " index so that consecutive members reach every subset, some clients without a requested rule, lint or breaking, with or without the builtin client): lint / breaking"
    " through bufcheck.Client with bufcheck.WithPluginConfigs and a RunnerProvider that serves in-process pluginrpc servers (check.NewServer) whose handlers fail / succeed with"
    " findings / are slow / block until the harness releases them (all give way to a cancelled context). Each member: every client alone (reference texts), then 8 executions"
    " (16 in thorough) under thread.SetParallelism 1/2/3/4/16, GOMAXPROCS 1/2/4/N, hook yields at dispatch / job start, forced release orders of the blocking handlers"
    " (in order, reversed, shuffled, failing first, failing last) and the plugin list reversed / shuffled. Oracle: for one plugin order every execution returns the same"
    " error text (multiclient-error-schedule-dependent); the text is the errors of the failing clients, each as obtained alone, in CONFIG order joined by newlines"
    " (multiclient-error-not-config-order); it never mentions a cancelled context (multiclient-context-canceled-leaked); every client with a requested rule runs exactly"
    " once, failing neighbours or not (multiclient-client-not-run-once); error iff a client fails (multiclient-verdict); when all succeed the findings are identical over"
    " schedules AND plugin orders and are the union of the findings of each client alone (multiclient-annotations-schedule-dependent, multiclient-annotations-not-union);"
    " multiclient-panic. Correspondence lines `mcheck <parallelism> <outcome per client in config order f|s|n> <clients in the order they finished>` -> the clients the"
    " error lists, in order, and the clients that ran (256 in quick) against BufModel.MultiClient.checkErr (= Parallel.joinedErrors over the jobs, no cancellation)."
    " `--only 6000000+k` replays member k, `build/c02 ... mclient` runs the part alone. Non-trivial (new lines): an `mfail` / `mfdag` line whose answer is an error; an"
    " `mcheck` line of a member with >= 2 failing clients.\","
)

OLD2 = "the CLI's mapping of --path values to module-relative target paths (bufworkspace/module_targeting.go) is exercised by the binary half, not modelled\"]"
NEW2 = ("the CLI's mapping of --path values to module-relative target paths (bufworkspace/module_targeting.go) is exercised by the binary half, not modelled\",\n"
        "                                     \"multi-failure workspaces: the theorems are over BufModel.MultiFail (an id-carrying copy of Graph.depsRec, proved to erase to it); WHICH imports a file has and whether it scans comes from the harness's reading of the sources (regex over its own generated files), the walk order from a recording bucket; storage walk orders are permuted in-process only - the binary half varies module order, GOMAXPROCS and repetition\",\n"
        "                                     \"multi-client checks: the harness's plugins are in-process pluginrpc servers (no plugin processes, no wasm); the builtin client's completion is not observable and is left out of the `mcheck` lines; texts of the individual client errors are taken from reference runs of each client alone\"]")

for old, new in ((OLD1, NEW1), (OLD2, NEW2)):
    if s.count(old) != 1:
        sys.exit("expected exactly one occurrence of %r in %s (found %d)" % (old[:60], path, s.count(old)))
    s = s.replace(old, new)
open(path, "w").write(s)
print("patched C02 in", path)
