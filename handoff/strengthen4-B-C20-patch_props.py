#!/usr/bin/env python3
"""Patches the C20 entry of bin/props.py in place (strengthening 4-B: size strata of `buf format`).
usage: python3 handoff/strengthen4-B-C20-patch_props.py [path/to/bin/props.py]   (idempotent)"""
import sys
path = sys.argv[1] if len(sys.argv) > 1 else "bin/props.py"
s = open(path).read()

# 1. rule: one more part, appended to the sentence that ends part (v)
OLD_RULE_END = "x which files differ (none / first / last / middle / all).\","
NEW_RULE_END = ("x which files differ (none / first / last / middle / all). "
    "Part (vi): the same output modes by SIZE of the formatted text - a generator produces files whose formatter output has exactly a wanted number of bytes "
    "(a canonical text padded with a comment line / a string literal of computed length, checked with FormatFileNode in the harness): 512 B, 4 KiB, 32 KiB-1 / 32 KiB / 32 KiB+1, "
    "64 KiB-1 / 64 KiB / 64 KiB+1, 1 MiB+1 (thorough: also 8 KiB, 16 KiB, 128 KiB, 1 MiB and every -1 / +1 neighbour) x sink {stdout, -o file (existing shorter / existing longer / new), "
    "-o dir (existing with stale longer versions / new), -w + second run, -d; -d combined with the writing sinks; --exit-code rotating} x input {directory, \\\".\\\", single file, --path, "
    "module directory, tar archive (not with -w), two-module workspace} (quick: every size x every sink with the input form rotating; thorough: the whole product); the sized file first / "
    "in the middle / last among small files, three sized files in one run, the concatenated STREAM ending at 32 KiB / 64 KiB -1 / 0 / +1; one comment line resp. one string literal as long as "
    "the file (70 001 bytes and 1 MiB+1); a 2-, 3- or 4-byte UTF-8 character lying across byte 4096, 32768 and 65536 of the formatted text (every split of the character; in a comment and in "
    "a string literal; after many short lines or inside one long line; once with the boundary counted in the concatenated stream); inputs already formatted, shrinking (blank runs, trailing "
    "white space, indentation, CRLF, BOM, leading blank lines that put the INPUT one byte past the next boundary) and growing (no final newline, a=1) to the size. Oracle: stdout / the -o file "
    "byte for byte the concatenation in path order of the formatter's outputs of the targeted files, every file below -o dir / on disk after -w byte for byte that output (untargeted and "
    "foreign files untouched), the diff -u text of -d applied to the input reproduces the formatter's output completely (hunk counts included) - classes format-output-truncated, "
    "format-sink-not-truncated, format-concat-wrong, format-output-wrong, format-diff-inconsistent, format-diff-verdict; failure text = file, stratum, input form, sink, expected and actual "
    "size, offset of the first difference. Protocol: one `fmts` line per run (the Lean sink model formatToFile / formatToDir / formatWrite evaluated on SUMMARIES length + polynomial hash, "
    "a monoid homomorphism by sink_summary_is_summary_of_sink), a `fmtc` line with the contents themselves for the small cases, and the `exit format` line.\",")

# 2. trusted base: the summaries
OLD_TB = "the walk model has the formatter's output as a parameter\"],"
NEW_TB = ("the walk model has the formatter's output as a parameter\",\n"
    "                                     \"part (vi): protocol lines carry a summary (length, polynomial hash base 257 modulo 4294967291) of each text instead of the text; "
    "two different texts of equal length and equal hash would be indistinguishable to the model-vs-implementation comparison (not to the oracle, which compares the bytes); "
    "units of the model's texts are code points, of the harness's summaries bytes\"],")

if "Part (vi): the same output modes by SIZE" in s:
    print("already patched")
    sys.exit(0)
assert s.count(OLD_RULE_END) == 1, "C20 rule end not found exactly once"
assert s.count(OLD_TB) == 1, "C20 trusted_base anchor not found exactly once"
s = s.replace(OLD_RULE_END, NEW_RULE_END).replace(OLD_TB, NEW_TB)
open(path, "w").write(s)
print("patched", path)
