#!/usr/bin/env python3
"""In-place patch of the C11 entry of bin/props.py for strengthening 6-E (Part O: output-file histories).
usage: python3 handoff/strengthen6-E-C11-props-patch.py bin/props.py   (aborts unless every anchor is found exactly once)"""
import sys
p = sys.argv[1]
s = open(p).read()
edits = [
    # rule: Part O sentence, in front of the "non-trivial" sentence of C11
    (" Oracle classes extbits-* (at most 6 recorded per class). A line is non-trivial when a filter was applied and produced an image (A),",
     " Oracle classes extbits-* (at most 6 recorded per class). Part O (parto.go): OUTPUT-FILE HISTORIES - the output path of `buf build -o` / `buf convert --to` / `buf alpha protoc -o` (all through buffetch's internal writer, os.Create) already exists: five images of different sizes per workspace x every encoding x compression (+ one file name changing its #format=) x history shapes {long then short, short-long-short, descending, same twice, foreign longer / shorter / equally long file, removed in between, symbolic link to a longer output, link chain, dangling link, two names for one file, link loop, directory}; after EVERY write the bytes of the path equal the bytes the same write leaves at a fresh path, no other directory entry changed, a link is still a link, a failing write returned an error and changed nothing; after the last write the image read back through the controller equals the image written; each history is an `ofh` protocol line (per step ok / error class, per name where every byte it holds came from) compared with the model (BufModel/OutFile.lean); oracle only: read-only output file, missing parent directory, FIFO, stdout, PutMessage; O2: the same through the real binary (build / convert / alpha protoc, output through a symbolic link, -o -, a directory as output) read back with `buf build FILE -o -#format=binpb` / `buf convert`. Oracle classes C11-outfile-* / binary-outfile-* (at most 4 recorded per class). A line is non-trivial when a filter was applied and produced an image (A), a history was run (ofh),"),
    # trusted base
    ("\"netext.ValidateHostname (module registry) is not modelled; generated registries are valid host names\",",
     "\"netext.ValidateHostname (module registry) is not modelled; generated registries are valid host names\",\n"
     "                                     \"output-file histories: the model is the fragment of the file system os.Create can see (flat names; regular file / symbolic link / directory; O_CREATE|O_TRUNC through links, ELOOP after 40 links, EISDIR); permissions, FIFOs, hard links, missing parent directories and stdout are oracle-only; the bytes of an output are abstract (payload id, offset) - the encoders are library parameters as before\","),
]
for old, new in edits:
    if s.count(old) != 1:
        sys.exit("anchor not found exactly once: " + old[:80])
    s = s.replace(old, new, 1)
open(p, "w").write(s)
print("patched", p)
