#!/usr/bin/env python3
"""In-place patch of the C05 entry of bin/props.py (strengthening round 5-A, C05 part).

usage: strengthen5-A-C05-props-patch.py [path/to/bin/props.py]   (default: bin/props.py next to this handoff dir)
Every anchor must occur EXACTLY once; otherwise nothing is written."""
import os, sys

path = sys.argv[1] if len(sys.argv) > 1 else os.path.join(os.path.dirname(os.path.dirname(os.path.abspath(__file__))), "bin", "props.py")
src = open(path).read()

EDITS = [
    # 1. what the clean generator leaves free
    ("`allow_alias = false`, `features.field_presence = EXPLICIT|IMPLICIT`,",
     "`allow_alias = false`, `features.field_presence = EXPLICIT|IMPLICIT`, clean enums whose values after the zero value have negative / "
     "sparse / descending numbers and the int32 bounds, editions enums made CLOSED with `features.enum_type = CLOSED` at the enum or at the file,"),
    # 2. the second stratification
    ("then planting operators selected stratified by (operator, KIND of element) so every operator reaches every kind of element its iteration helper visits,",
     "then planting operators selected stratified by (operator, KIND of element) so every operator reaches every kind of element its iteration helper visits, "
     "AND by (rule, KIND of list the iteration helper walks - fields of a message / extensions nested in it / file-level extensions / top-level and nested "
     "messages and enums / enum values / oneofs / services / RPCs / imports / files -, POSITION of the planted element in that list: first / middle / last / "
     "only / at an index >= 10), the budget of every workspace going greedily to the plants that cover most strata not yet covered in the run,"),
    # 3. the enum family and the wide workspace
    ("(not generated: groups declared as extensions, enums inside group bodies);",
     "(not generated: groups declared as extensions, enums inside group bodies); the DECLARATION-ORDER family of enums: the whole value list of an enum "
     "(top-level or nested; proto2, proto3, editions open, editions closed by an enum-level or a file-level feature) is replaced by one of 19 number "
     "templates - zero value first / in the middle / last / absent, two or three names of 0 (allow_alias) adjacent or apart, several names of non-zero and of "
     "negative numbers, int32 bounds, a single value, twelve values with the zero value or its second name at index 11; a non-zero first value only in closed "
     "enums that are not a map value type - with NO offending value (judged like a clean workspace: exactly ENUM_FIRST_VALUE_ZERO and / or ENUM_NO_ALLOW_ALIAS, or "
     "nothing) or ONE offending value at every slot for every rule the slot can offend (ENUM_ZERO_VALUE_SUFFIX at every name of 0, ENUM_VALUE_PREFIX, "
     "ENUM_VALUE_UPPER_SNAKE_CASE, COMMENT_ENUM_VALUE at every value), the expectation computed by a documentation-level oracle over all enums of the workspace "
     "(every name of 0 needs the suffix wherever it is declared; ENUM_FIRST_VALUE_ZERO is about the first DECLARED value; prefix / case / comment are about every "
     "value whatever its number), strata per template and slot resp. per (sign of the number, 1st / 2nd / 3rd+ name of its number), closedness variant and "
     "nesting depth; one WIDE workspace per run (15 files of one package, run last): >= 11 fields, nested messages, nested enums, "
     "oneofs and nested extensions in one message, 11 top-level enums and messages, 11 file-level extensions, 12-value enums, 11 services, a service of 11 RPCs, "
     "a file with 11 used imports, 14 target files - the only place where positions at an index >= 10 exist, planted at the least covered strata;"),
]

if "the DECLARATION-ORDER family of enums" in src:
    sys.exit("already applied, nothing written")
for old, new in EDITS:
    n = src.count(old)
    if n != 1:
        sys.exit("anchor found %d times (expected once), nothing written: %r" % (n, old[:70]))
for old, new in EDITS:
    src = src.replace(old, new)
open(path, "w").write(src)
print("patched", path)
