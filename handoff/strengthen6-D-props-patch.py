#!/usr/bin/env python3
"""Appends the round-6 sentences to the C14 `rule` string of bin/props.py (in place, idempotent).
usage: strengthen6-D-props-patch.py [path/to/props.py]"""
import sys
p = sys.argv[1] if len(sys.argv) > 1 else "/verif/bin/props.py"
s = open(p).read()
tail = "(on a disk base the temp file is an object of the directory, modelled as coded; the oracle only demands that Walk and Get agree about it)."
add = (" Round 6: the oracle judges the ERROR of every write against its own reference tree (harness/cmd/c14/accepts.go): a put / atomic begin / close / delete-all / copy that the reference map accepts"
 " (valid path, not below an object, not a directory of the history) must not fail on any backend (classes put-fails-after-deleteall-of-ancestor, backend-op-error-differs, copy-fails-although-map-accepts)."
 " Ancestor family (anc.go): scripted sweep (--only 4000000+i) directory depth 1-3 x DeleteAll prefix at every ancestor level, '', '.' and the directory itself x plain/atomic x 6 backends (memory, disk, disk behind a prefix view, overlay, union, disk written through MapReadWriteBucket) x {plain, the removed ancestor comes back as a FILE, empty directories removed one by one with Delete}, and random histories of 10-40 ops over a 6-path pool of nested paths (--only 5000000+i, 2/3 disk bases, prefix views rooted at the ancestors)."
 " Reader isolation (readers.go, model BufModel/Reader.lean): ops O (Get on a base + read n bytes) and F (read to the end) with overwrites (plain/atomic, longer/shorter/empty), deletes, delete-all, unrelated puts in the same and in other buckets and in-flight atomic puts in between; a memory reader yields exactly the content at Get time, a disk reader follows open-file semantics as coded (rename/unlink: old content; non-atomic put: continues in the new content); scripted sweep --only 6000000+i, random --only 7000000+i, shadow readers through all-memory composites, and concurrent rounds (readers in goroutines while a writer alternates two contents: every read is one of them in full)."
 " Duplicate archive members (dupmembers.go, `dup` lines, --only 8000000+i): tar/zip with 1-2 paths present 1-3 times with different contents, spelled identically or colliding only after strip-components 0-2 / normalisation, with non-regular twins, '._' twins, fillers, matcher, size limit, into an empty / preloaded memory bucket or a disk bucket: after a successful extraction every path holds the LAST regular member mapping to it (classes untar-/unzip-duplicate-member-not-last, extracted-object-differs)."
 " The base-equals-reference-map comparison is made after every write and every third pure read (state comparison: a divergence persists).")
if "Round 6: the oracle judges the ERROR of every write" in s:
    print("already patched"); sys.exit(0)
assert s.count(tail) == 1, "C14 rule tail not found exactly once"
open(p, "w").write(s.replace(tail, tail + add))
print("patched", p)
