#!/usr/bin/env python3
"""Patch the C10 entry of bin/props.py in place (strengthening round 5-C: BucketIDs / OpaqueIDs of
modules sharing a path, Family B of harness/cmd/c10/bucketid.go).
usage: python3 handoff/strengthen5-C-C10-props-patch.py [path/to/bin/props.py]"""
import sys
path = sys.argv[1] if len(sys.argv) > 1 else "bin/props.py"
s = open(path).read()

# 1. rule text: Family B is described before the closing sentence of the C10 rule
OLD1 = " and the ls-files --include-imports list. Non-trivial = the module set has more than one module; distinct = distinct protocol lines."
NEW1 = (
    " and the ls-files --include-imports list."
    " Family B (identity of the modules of a workspace, harness/cmd/c10/bucketid.go, case indexes 1000000+k, own random stream): v2 workspaces in which the"
    " SAME `path:` is listed 1-4 times with different includes / excludes (all-includes, first-entry-excludes-the-rest, include with a nested exclude whose"
    " inside is another entry's include), next to sibling directories named like derived ids (foo-1, foo-2, foo-3, foo-4, foo-02, foo-2-1, foo-2-2, foo-1-1, Foo,"
    " Foo-2, .-2, v1-2-1, a/b-2 ...), nested module directories (foo/bar beside foo, foo-2/bar), `.` as a module path, two repeated paths at once; 39 stratified"
    " shapes x 3 entry orders (as listed / reversed / shuffled) first, then 160 (thorough 1500) random workspaces of up to 10 entries; paths spelled foo, ./foo,"
    " foo/, ./foo/, foo/., x/../foo, \"\"; names on none / some / all entries; every entry gets its own files (unique import paths), a lint `use` rule that differs"
    " from its neighbours' and a unique breaking `except` rule; imports are planted between the entries (a DAG, known edges). Plus buf.work.yaml (v1) workspaces"
    " with derived-looking / case-differing / differently spelled directories and with a directory listed twice or containing another one (must be refused)."
    " Every workspace is opened through buftarget.NewBucketTargeting + WorkspaceProvider.GetWorkspaceForBucket on disk; one `bid` line per workspace sends the"
    " paths AS WRITTEN (+ names) to BufModel.BucketID (normalise, stable sort by DirPath, bucketIDsForDirPaths with the running count, duplicate check, second"
    " pass, OpaqueID = name or BucketID; v1: validateBufWorkYAMLDirPaths) and compares the BucketID~OpaqueID of every entry (the module is matched to its entry by"
    " the files it owns) or the error class. Oracle (implementation only, from the generator's bookkeeping and the file system): the workspace opens; as many"
    " local modules as entries; BucketIDs and OpaqueIDs pairwise distinct; every module's file set is the file set of exactly one entry computed from the file"
    " system with includes / excludes, no file owned twice or by nobody, all target files; the module carries the name, lint.use and breaking.except WRITTEN for"
    " that entry; ModuleDeps (direct flags, transitive) names exactly the modules the planted imports lead to; ls-files == image files == files on disk; the ids"
    " are the documented `<path>`, `<path>-2`, ... / all-suffixed scheme of the source comment (re-implemented independently in Go); a sample of 56 (thorough 108)"
    " workspaces also runs the real `buf` binary (8 processes, one BUF_CACHE_DIR each): `buf build -o -#format=json` (image file names), `buf ls-files`, `buf dep graph`"
    " (nodes and edges by OpaqueID), `buf lint --error-format json` (every file is reported for exactly the rule of ITS entry)."
    " Non-trivial = the module set has more than one module (every `bid` line counts); distinct = distinct protocol lines."
)

# 2. trusted base: what Family B takes on trust
OLD2 = "which local modules an input targets (and with which module-relative paths) is supplied by the generator as the documented behaviour of workspace_targeting.go / module_targeting.go\"],"
NEW2 = (
    "which local modules an input targets (and with which module-relative paths) is supplied by the generator as the documented behaviour of workspace_targeting.go / module_targeting.go\","
    "\n                                     \"Family B observes the BucketIDs through the exported API (Module.BucketID / OpaqueID of the module that owns an entry's files), not by calling the unexported bucketIDsForModuleConfigsV2; includes / excludes semantics of the ownership oracle are the documented ones (a file belongs to an entry iff it lies under the path, under some include if any are given, and under no exclude); buf.work.yaml errors are classified by their message text (no typed error exists); a module NAMED like the directory of an unnamed module (equal OpaqueIDs, one module silently dropped) is a recorded observation the family stays away from unless C10_BID_NAMEDIR=1\"],"
)

for old, new in ((OLD1, NEW1), (OLD2, NEW2)):
    if s.count(old) != 1:
        sys.exit("expected exactly one occurrence of %r in %s (found %d)" % (old[:70], path, s.count(old)))
    s = s.replace(old, new)
open(path, "w").write(s)
print("patched", path)
