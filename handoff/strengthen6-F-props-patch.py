#!/usr/bin/env python3
"""strengthen6-F: patch the C13 / C09 / C08 / C15 entries of bin/props.py in place (idempotent).
usage: strengthen6-F-props-patch.py [path/to/props.py]   (texts for C13 / C08 are read from the files next to this script)"""
import os, sys
here = os.path.dirname(os.path.abspath(__file__))
p = sys.argv[1] if len(sys.argv) > 1 else '/verif/bin/props.py'
s = open(p).read()
if 'strengthen6-F' in s or 'Part E (harness/cmd/c15/preexist.go' in s:
    print('already patched'); sys.exit(0)

def once(old, new):
    global s
    assert s.count(old) == 1, ('anchor not found exactly once', old[:80], s.count(old))
    s = s.replace(old, new, 1)

def esc(t):
    return t.replace('\\', '\\\\').replace('"', '\\"')

# ---- C13: append Section F / G to the rule
c13 = open(os.path.join(here, 'strengthen6-F-C13-props-rule-append.txt')).read().rstrip('\n')
once('A `xt` line is non-trivial when something was written or the extraction failed.",',
     'A `xt` line is non-trivial when something was written or the extraction failed.' + esc(c13) + '",')

# ---- C09: rule (12), trusted_base line, assumption reworded
c09_rule = " (12) lock-file histories (harness/cmd/c09/lockhist.go, 14 scenarios in quick / 210 per seed in thorough, stratified by index so that every run has every age and kind; `--only 1000000+j` replays scenario j): the REAL filelock.Locker, one instance per process with the lock timeout shortened to 250 ms through filelock.LockerWithLockTimeout (holders, waiters and late writers: 20 s), on a cache directory on disk laid out as bufcli does (v3/modules, v3/modulelocks); the lock file of the key is absent / fresh / 59 min / 61 min / 2 h / 1 year old (os.Chtimes on every file, the directories as old or fresh), left by an earlier lookup, by an earlier store that was killed or failed (lock file + torn entry), by files written directly, or by a complete store; a HOLDER keeps the lock longer than the timeout - a writer stopped at a gate while it holds the exclusive lock (before a Put / between two Writes / before a Close of a file or side file / before the marker put / before the marker Close; optionally a second stop later on the same object; it then resumes, fails or dies there), or a reader stopped between its RLock and its read of module.yaml - while contenders with their own locker (a second and third store of the key, readers applying every accessor and reading every file) run to their end at every stop; every 7th scenario a waiter with a long timeout is served after the holder, becomes the next slow holder and is contended in turn; readers whose digest check passed read every file AGAIN at every later moment; a late writer and a late reader close the history. The writers store through the tracing bucket over the directory, so the trace oracles above apply and the whole history goes to the model as one `run` line (an acquire while the lock is held is a no-op there) plus a `load` line per observation. New classes: lock-acquired-while-held (a Lock/RLock call returned success while another process provably held the lock in a conflicting mode), lock-file-replaced (the inode at the lock path is not the one a live holder locked)."
once('store-nil-but-no-hit / wrong-content-served at every observation.",',
     'store-nil-but-no-hit / wrong-content-served at every observation.' + esc(c09_rule) + '",')
once('"marker bytes are abstracted to canonical / other-deps / invalid by byte comparison in the harness",',
     '"marker bytes are abstracted to canonical / other-deps / invalid by byte comparison in the harness",\n'
     '                                    "lock-file histories: who holds the real lock is recorded by a wrapper around filelock.Locker (outcome of every Lock/RLock/Unlock call; the inode at the lock path by stat(2)); the cache directory is written by the tracing bucket (one put per Write piece, module.yaml published with an atomic put)",')
once('"flock gives mutual exclusion between processes"',
     '"kernel flock(2) semantics on a local file system: conflicting locks on ONE inode exclude each other per open file description, within and across processes (not NFS); that buf keeps every process on the same inode (the lock file is never replaced while held) and that a timed-out waiter does not proceed is CHECKED (lock-file histories), and the writer theorems name the assumption (LockRespected / no_steal_preserves, mutual_exclusion_needed)"')

# ---- C08: append Section K to the rule
c08_rule = " Section K (harness/cmd/c08/diskhist.go; digest histories on the disk backend; 150 / 2 000 cases, `--only 6000000+i`): a generated module (file sets of section D plus planted same-size .proto twins - also the same base name in two directories and NFC/NFD spellings -, LICENSE / doc / shadowed-doc / non-module / v1 side files; natural, pinned and whole-second mtimes) lives in ONE directory that is edited 3-8 times the way mtime-preserving tools do: same-size rewrites with the old mtime restored (WriteFile, WriteAt without O_TRUNC, one byte, all files), only mtime / only size / both changed, rename-over (new inode, mtime restored or not), delete + recreate, whole directory replaced under the same name, a cp -p style copy with other bytes, swap of two same-size files, touch, identical bytes rewritten, add / remove a file (directory mtime restored), revert to the original bytes. After every step, in the same process with fresh bucket and module-set objects, Module.Digest (b5 remote-style and local, b4 with buf.yaml/buf.lock read through the bucket) is computed from disk (plain bucket + rotating view: symlinks enabled, parent bucket + MapOnPrefix, symlinked root, relative root), from memory (bytes the harness reads back itself) and through a tar round trip. Oracle: disk digest = independent SHAKE256 construction over the current bytes (disk-digest-stale), = memory/tar digest (disk-digest-differs-from-memory), changes iff the module files (b4: or side files) changed in that step (digest-insensitive-to-content-change, digest-changed-without-content-change), returns to the first value whenever the module files are the original ones again (digest-not-restored-after-revert). Every step is also a plain b5 / b4 line: the model digests the current bytes."
once('The non-NFC atoms are also in the path pools of the older sections.",',
     'The non-NFC atoms are also in the path pools of the older sections.' + esc(c08_rule) + '",')

# ---- C15: append part E to the rule
c15_rule = " Part E (harness/cmd/c15/preexist.go; PRE-EXISTING DESTINATIONS; --only 2000000+i replays case i): the previous content of every written object stands in one of eight relations to the new content (absent, 1 / 7 / 70 000 bytes longer, half as long, equal length, identical, empty) x new content of 0 / 11 / 32 768 / 80 000 bytes, next to a bystander object no put touches. E1: a real disk bucket with part X's machinery, all 16 shapes of part X plain and atomic, a third through MapWriteBucket / MapReadWriteBucket views, fault-free and with the close(2) of each object and the first / last write(2) of each object failing (`rput` lines). E2: part A's fault wrapper above a memory and a disk bucket that already hold content (PutPath, CopyReader, ForWriteObject, CopyReadObject, CopyPath, Copy par 1/4, Untar, Unzip), fault-free and every single primitive of the trace failing (`pre <old> <line of part A>` lines: the model's helpers started from the previous content). E3: the generated-file flush into output directories holding an earlier run's files, fault-free and with the close(2) of one file failing through the hook. E4: one plain and one atomic put over previous content on disk observed after Put, every Write and Close (`pprefix`, `aprefix`). E5: a reader opened on the previous content (memory bucket; atomic put on disk) stays open across the overwrite while further puts complete and further writers of the same path, other paths and another memory bucket are in flight, then reads on (`rover` lines). Oracle: a helper that returns nil leaves EXACTLY the new bytes in every object it wrote (overwrite-left-previous-tail, overwrite-success-but-previous-content-kept, overwrite-success-but-not-new-content, flush-overwrite-*); a fired fault is reported (overwrite-fault-not-reported); a failed ATOMIC put leaves exactly the previous content or no object and no temp file (failed-atomic-put-not-previous-content, overwrite-temp-file-left); bystanders unchanged; an atomic put is invisible before its Close; the reader delivers the previous content to its end (reader-across-overwrite-torn)."
once('(classes helper-returned-with-open-objects, primitive-after-helper-returned).",',
     '(classes helper-returned-with-open-objects, primitive-after-helper-returned).' + esc(c15_rule) + '",')

open(p, 'w').write(s)
print('patched', p)
