#!/usr/bin/env python3
"""Patches the C20 entry of bin/props.py in place (strengthening 4-F: the import-path family).
usage: python3 handoff/strengthen4-F-patch_props.py [path/to/bin/props.py]   (idempotent)"""
import sys
path = sys.argv[1] if len(sys.argv) > 1 else "bin/props.py"
s = open(path).read()

# 1. rule: one more part, appended to the sentence that ends part (vi)
OLD_RULE_END = "a `fmtc` line with the contents themselves for the small cases, and the `exit format` line.\","
NEW_RULE_END = ("a `fmtc` line with the contents themselves for the small cases, and the `exit format` line. "
    "Part (vii): the IMPORT-PATH family of the linker phase - ONE import statement per workspace whose path is: missing (plain, with a space, non-ASCII, with a backslash, empty, `.`), "
    "a Well-Known-Type path that does not exist, an existing directory (`zz`, `zz/`, `dir.proto`), a file that exists only outside the module, absolute (nowhere / an existing file), "
    "leaving the module with `..` at depth 1, 2, 3 (a file EXISTS where it points) or from the inside (`zz/../../x`), `..` itself, not normalised though it names an existing file "
    "(`./x`, `a/./x`, `a/../a/x`, `a//x`, `x.proto/`, `./google/protobuf/empty.proto`), excluded by `excludes` in buf.yaml, excluded by --exclude-path (resolves), a file of another module "
    "of the workspace (resolves), the file itself, a 2-cycle, a 3-cycle, a cycle across two modules, a duplicate import (adjacent / apart), `import public` / `import weak` of a missing / "
    "`..` / `./` path, and three controls that resolve - planted in the target file, a sibling of its package, a file of another module (and: compiled only because the target imports it / "
    "not compiled at all) x lint / build / breaking (problem on the input or on the --against side) / format -d --exit-code / ls-files / ls-files --include-imports / dep graph x the input "
    "forms of part (iv) x every --error-format; quick: every kind x every location with command and input form rotating, every kind x the four other commands, every kind whose accessor "
    "error is not fs.ErrNotExist x each of lint / build / breaking input / breaking against; thorough: every kind x location x command, and the not-ErrNotExist kinds x every input form x "
    "the four compiling commands. Machinery, classes and protocol lines of part (iv); the first annotation must name the importing file and lie on the planted statement (line, column "
    "within the statement; for a cycle: on an import statement of the cycle). Which members of an import cycle of several files protocompile reports depends on its scheduler: the five runs of such a case are judged "
    "each on its own (status 100, no Failure line, every record decodes with the format's decoder and lies on an import statement of the cycle) instead of against each other; "
    "a file importing itself is reproducible and compared across formats as everything else. Part (vii b): generated import paths (decorations ./ // /./ dir/.. leading ../ and / trailing /, existing files, "
    "Well-Known Types, `import public` / `import weak`) against generated one- and two-module sets through the real bufimage.BuildImage (+ controller method + wrapError) and ModuleDeps() "
    "(+ wrapError) in the probe of part (iii): one `imp` line each, answered by the model's importFate / buildImageErr / moduleDepsErr (exit status, annotations printed, Failure line, "
    "position of the annotation).\",")

# 2. trusted base
OLD_TB = "units of the model's texts are code points, of the harness's summaries bytes\"],"
NEW_TB = ("units of the model's texts are code points, of the harness's summaries bytes\",\n"
    "                                     \"part (vii): what `buf ls-files --include-imports` and `buf dep graph` do with each kind of import statement (as coded: status 1 and a Failure "
    "line for most of them; dep graph 100 only for a path that is simply not found) is a table in the harness (imports.go: impKinds, fields Dep / Lsi), validated against the unchanged "
    "tree; which members of an import cycle protocompile reports depends on its scheduler - such runs are not compared with each other (phases.go: independentRuns); the `imp` model knows "
    "a module set as the list of its .proto paths and the Well-Known Types as the list datawkt.AllFilePaths (passed on the line)\"],")

if "Part (vii): the IMPORT-PATH family" in s:
    print("already patched")
    sys.exit(0)
assert s.count(OLD_RULE_END) == 1, "C20 rule end not found exactly once"
assert s.count(OLD_TB) == 1, "C20 trusted_base anchor not found exactly once"
s = s.replace(OLD_RULE_END, NEW_RULE_END).replace(OLD_TB, NEW_TB)
open(path, "w").write(s)
print("patched", path)
