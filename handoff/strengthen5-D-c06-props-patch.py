#!/usr/bin/env python3
"""Patch the C06 `rule` text of bin/props.py in place (strengthening round 5-D, configuration-key family).
usage: python3 handoff/strengthen5-D-c06-props-patch.py [path/to/bin/props.py]"""
import sys
path = sys.argv[1] if len(sys.argv) > 1 else "bin/props.py"
s = open(path).read()

OLD = " A line is non-trivial when the configuration is rejected, selects a non-default rule set, or reports at least one annotation; distinct = distinct protocol lines."
NEW = (
    " Section G (configuration-KEY family, runs first): every id a user can write as an entry of use / except or as a key of ignore_only, in the lint and in the"
    " breaking section of a v1beta1 / v1 / v2 buf.yaml, enumerated deterministically: every rule id and category id of BOTH rule types of ALL three versions"
    " (deprecated ids and their replacements included; each version also sees the ids that exist only elsewhere), a lower-case spelling of every id plus"
    " Title_Case / last-letter-lower spellings in rotation, junk ids (suffix, proper prefix, padded with a blank, dashes), blank ids; slots use, except, ignore_only with a"
    " path, ignore_only with an empty path list; v2 sections alternately at workspace and at module level; the other type's section as a decoy. G1: buf.yaml TEXT ->"
    " bufconfig.ReadBufYAMLFile -> Client.ConfiguredRules, one ykeys line per (version, section, slot, key) (about 9 000 per seed) vs the Lean readYaml +"
    " newRulesConfig over the regenerated tables, and one keytab line per (version, type): the accepted-key table of the live registry (Client.AllRules, rule"
    " categories) vs acceptedKeys of the regenerated Lean tables. G2: Client.Lint / Client.Breaking (ycheck lines) on a planted workspace in which nearly every"
    " rule fires (evidence extra keys_ignore_only_without_planted_annotation lists the rest), every live rule selected: every accepted ignore_only key (quick:"
    " all categories and deprecated ids, every third rule id rotating with the seed) with a path chosen so that annotations of the key's rules lie inside AND"
    " outside it, plus one key of every rejected class per (version, section, slot). G3: the commands buf lint, buf breaking, buf config ls-lint-rules /"
    " ls-breaking-rules --configured-only (the real command tree buf.NewRootCommand run in-process through appcmd.Run on workspaces written to disk, --error-format=json):"
    " quick: five workspaces per (version, section) - an own rule, one of the other own classes, an other-type rule under ignore_only, one of the other other-type"
    " classes, one of the unknown classes; classes and slots rotate with seed, version and section - thorough: 2 keys of every class in every slot; the commands run in"
    " the background of the sequential sections. Oracle (implementation only, table"
    " from the live registry): a key is accepted iff it is a rule id of THAT section's rule type in THAT version or a category carried by such a rule"
    " (classes C06-other-type-key-accepted, C06-case-variant-key-accepted, C06-unknown-id-accepted, C06-valid-key-rejected); an accepted key stands for exactly"
    " its rule / its category's rules / its replacements: use selects exactly them, except removes exactly them from the defaults (C06-key-selection-wrong),"
    " ignore_only removes exactly their annotations under the path (C06-ignore-only-key-no-effect, C06-suppression-out-of-scope, C06-report-not-union); a key that"
    " is valid where it stands never makes the other type's command fail. As coded and only counted: an ignore_only key with an empty path list is dropped by the"
    " reader before anything validates it; a use entry of the OTHER section that is unknown to both types also fails this type's command (related check configs)."
    " evidence extra keys_strata_not_reached must be []."
    + OLD
)
if s.count(OLD) != 1:
    sys.exit("expected exactly one occurrence of %r in %s (found %d)" % (OLD[:60], path, s.count(OLD)))
s = s.replace(OLD, NEW)
open(path, "w").write(s)
print("patched", path)
