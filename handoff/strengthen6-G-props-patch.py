#!/usr/bin/env python3
"""Patch the C06 `rule` text of bin/props.py in place (strengthening round 6-G: multi-module v2 workspaces, directive spellings).
usage: python3 handoff/strengthen6-G-props-patch.py [path/to/bin/props.py]"""
import sys
path = sys.argv[1] if len(sys.argv) > 1 else "bin/props.py"
s = open(path).read()

OLD = " A line is non-trivial when the configuration is rejected, selects a non-default rule set, or reports at least one annotation; distinct = distinct protocol lines."
NEW = (
    " Section M (multi-module v2 workspaces with workspace-level sections, runs second): 8 layouts of 2-4 modules (proto+vendor, names that are prefixes of each"
    " other, a common parent directory, nested module directories, shared directory names, three and four modules, the module '.'), every module with own files and"
    " with TRAP files <dir i>/<dir j>/... that lie inside module i and, made relative to module i, spell a path of module j; workspace-level ignore / ignore_only /"
    " use / except with paths inside module 1, inside module 2, inside none, at a module root, above a module root, unnormalised, 1-4 paths per key, some modules"
    " with their own section (which replaces the workspace-level one) or an empty one, every order of the modules in the file. Strata: every trap path (module"
    " directory, directory, file) under ignore and under ignore_only with the trap's module listed before and after the target module (quick: a rotating third;"
    " modules [proto, vendor] with ignore: [proto/vendor] on every seed); module roots / ancestors / outside paths; own sections; 120 (thorough 1500) random"
    " workspaces. M1: the buf.yaml TEXT is read with bufconfig.ReadBufYAMLFile - twice, and once more with the modules in reverse order (no module's configuration"
    " may change: C06-workspace-config-differs-between-reads, C06-workspace-module-order-changes-config); one ymulti line carries ALL modules of the file (module"
    " configurations in ModuleConfigs order + top-level configuration vs the Lean readYamlMulti, which converts every module from the same workspace-level section"
    " value) and one ycheck line per module runs Client.Lint / Client.Breaking with that module's configuration on the module's image. M2: the commands buf lint"
    " <workspace>, buf lint <workspace>/<module>, buf breaking <workspace> --against <old workspace> in-process on the workspace written to disk, with and without"
    " the ignore / ignore_only keys. Oracle (implementation only, from the yaml the harness wrote): an annotation of a selected rule is missing iff its file, as"
    " a path relative to the WORKSPACE root, lies under an ignore path of the section that applies to its module (under an ignore_only path of a key that selects"
    " its rule): C06-workspace-ignore-leaks-to-other-module (missing although no path covers it), C06-workspace-ignore-not-applied, C06-report-not-union,"
    " C06-suppression-adds-annotation, C06-yaml-invalid-path-accepted / C06-yaml-valid-config-rejected. As coded and only counted: a workspace-level path that is a"
    " strict ANCESTOR of a module directory is skipped for that module. evidence extra multi_strata_not_observable must be []."
    " Section H (directive spellings): 141 spellings of a buf:lint:ignore comment - 10 leading x 5 trailing white-space decorations of the directive line (0-4"
    " blanks, tabs, mixed, CR), the directive alone / first / middle / last / next to an empty comment line x {id, id + prose, comma list, two directive lines, two"
    " directives on one line, id + suffix}, 20 no-op spellings (no id, no blank, two blanks, tab separator, other case, lower-case or unknown id, proper prefix of"
    " the id, not at line start, bullets, quotes, other keywords), exotic Unicode white space, 16 block-comment shapes (one line, with / without leading *, indented"
    " *, javadoc, two directives, block + line comment), placements (trailing on the declaration line, detached by a blank line, attached after detached prose,"
    " trailing comment of the previous line) - each planted on an element of a rotating kind (message, field, enum, enum value, service, rpc, oneof, message"
    " enclosing the violating field; thorough: every spelling on every kind): check lines (Client.Lint, all live lint rules, v2 / v1 / v1beta1, comment ignores"
    " on and off) and one directive line per planted comment (the element's leading comment as the descriptor carries it + the rules measured on the element ->"
    " per rule suppressed or not, vs the Lean parseIgnoreDirectives / commentNames). Oracle (implementation only): a spelling declares the directive texts a"
    " reader of the documentation recognises; a rule's annotations on the element are suppressed iff comment ignores are allowed and a text starts with the rule"
    " id (C06-directive-not-recognised, C06-directive-wrongly-recognised, C06-suppressed-out-of-scope); exotic white space, javadoc one-liners, trailing and"
    " detached comments are compared with the model only. evidence extra directive_spellings_never_observed_suppressing must be []."
    + OLD
)
if s.count(OLD) != 1:
    sys.exit("expected exactly one occurrence of %r in %s (found %d)" % (OLD[:60], path, s.count(OLD)))
s = s.replace(OLD, NEW)
open(path, "w").write(s)
print("patched", path)
