#!/usr/bin/env python3
"""Patch the C02 `rule` / `trusted_base` text of bin/props.py in place (strengthening round 5-C).
usage: python3 handoff/strengthen5-C-C02-props-patch.py [path/to/bin/props.py]"""
import sys
path = sys.argv[1] if len(sys.argv) > 1 else "bin/props.py"
s = open(path).read()

OLD1 = " `--only 2000000+k keep` replays family member k and leaves its files under <out>/many-k. Non-trivial: a job fails (A);"
NEW1 = (
    " `--only 2000000+k keep` replays family member k and leaves its files under <out>/many-k."
    " Parts B-filter / E-filter (filter family, harness/cmd/c02/filterfam.go; 20 members in quick, 40 per seed in thorough, stratified by index:"
    " `import public` chain depth 1-4 x 2-6 re-exported leaf files, plus diamonds, a common file below the leaves, `import weak`, custom options defined"
    " behind the chain, a direct import next to the chain, proto2/proto3): the requested types live BEHIND the public chain (app/main.proto imports only"
    " umb/u1.proto; app/side.proto re-exports main; app/top.proto uses it through side). In-process: bufimageutil.FilterImage on a fresh copy of the image"
    " built three ways (all files targets / `--path app` so that the leaves are imports / that without imports) with ~33 option combinations per member"
    " (every include candidate: message, service, method, package, a type of an umbrella file, a type of an imported file; pairs and triples; every exclude"
    " candidate: leaf message, leaf enum, leaf package, option extension; include x exclude; rotating WithExcludeCustomOptions, WithExcludeKnownExtensions,"
    " WithAllowIncludeOfImportedType, WithMutateInPlace, ImageWithoutImports afterwards), each 5 times (10 in thorough) under GOMAXPROCS 1/2/16/4/N with the"
    " type lists reversed and the option list shuffled on the odd runs. Binary: 4 members (8 in thorough), `buf build` with --type / several --type /"
    " --exclude-imports / --path / --exclude-path / --exclude-source-info --exclude-source-retention-options / --as-file-descriptor-set / json output, on the"
    " directory and on image inputs, 6 runs each (12 in thorough) under GOMAXPROCS 1/2/16/unset/1/4 with the --type flags reversed on the odd runs."
    " Oracle: serialised result (or error) byte-identical over all runs (filter-nondeterministic, binary-filter-nondeterministic); EVERY file of the result"
    " comes after every file of its dependency list that is in the image (filter-order-not-topological); the surviving files keep the order of the source"
    " image (filter-file-order-not-as-coded); the new dependency list of every rewritten file is the kept imports in their source order followed by the"
    " imports gained through public imports in strictly ascending path order, no public_dependency left, weak_dependency indexes still name weak imports"
    " (filter-dependency-order-not-as-coded); no file / dependency twice. Correspondence lines `rdep` (one per distinct rewritten dependency list, ~500 in"
    " quick): old list + the SET of required imports in a scrambled order -> the implementation's new list, against BufModel.Filter.remapDeps. As coded:"
    " --exclude-imports is applied BEFORE the type filter (a type that needs an import is 'missing': counted, runs still compared); when two or more"
    " requested types are each in error the message names whichever the Go map iteration reached first - a genuine small defect, counted as"
    " `*:observed:error-names-arbitrary-type` until the proposed repair (handoff/strengthen5-C-C02-filter-type-order.diff) is applied (switch"
    " reportFilterErrorTypeOrder in filterfam.go). `--only 3000000+k keep` replays member k."
    " Parts B-overlap / E-overlap (overlap family, harness/cmd/c02/overlap.go; 6 members in quick, 20 per seed in thorough): a module tree three directories"
    " deep with look-alike siblings (a/b, a/bb, a/b.proto), path lists that contain a chain directory > sub-directory > file (2-4 entries, an unrelated path"
    " mixed in) used as --path, as --exclude-path, as --path with overlapping excludes inside it and as overlapping --path with one exclude. In-process"
    " (bufmodule.LocalModuleWithTargetPaths): EVERY order of each list (8 sampled orders per list in quick for 4 entries): the module's WalkFileInfos(only"
    " target files), GetTargetFileInfos, BuildImage, FormatModuleSet. Binary: 2 members (3 in thorough) x 2 (4) lists x modes, the sorted order, the reversed"
    " order and a sampled order, spelled plainly / with a trailing slash / with `./`, plus the covering paths alone, through build (workspace, module"
    " directory and image input), lint (sources and image), breaking --against an archive, format -d, export, ls-files (sources and image), 12 processes in"
    " parallel under GOMAXPROCS unset/1/4/16. Oracle: no file reported twice (overlap-duplicate-target); every output equals the output for the sorted list"
    " (overlap-order-dependent-<output>, binary-overlap-order-dependent-<command>); every output equals the output for the covering paths alone"
    " (overlap-not-equal-to-cover-*); the target files are the files below a --path and below no --exclude-path, computed from the file list"
    " (overlap-target-set). Image inputs: explicitly named .proto files come first in argument order (recorded finding image-path-order-dependent, part E):"
    " the bytes are compared only when the list names at most one .proto file, otherwise (and against the covering paths when a .proto file is named) the"
    " images are compared as sets of (file, import flag, descriptor). Correspondence lines `twalk` (one per distinct (files, paths, excludes) order, ~700 in"
    " quick): walk order and sorted target list against BufModel.Targeting.moduleTargetFiles / targetList. `--only 4000000+k keep` replays member k."
    " Non-trivial: a job fails (A); an `rdep` line gains >= 2 imports; a `twalk` line has >= 2 paths or excludes;"
)

OLD2 = "\"order-independence of the logic is proved per model (this file gathers the theorems); data-race freedom is not proved\"]"
NEW2 = ("\"order-independence of the logic is proved per model (this file gathers the theorems); data-race freedom is not proved\",\n"
        "                                     \"filtered images: the dependency-list and file-order theorems are over BufModel.Filter (remapDeps, rewrite); WHICH imports a file requires after filtering (closure.imports) is C12's model - the `rdep` lines take the set from the implementation and check the ORDER only\",\n"
        "                                     \"overlapping paths: the theorems are over BufModel.Targeting.moduleTargetFiles (one module); the CLI's mapping of --path values to module-relative target paths (bufworkspace/module_targeting.go) is exercised by the binary half, not modelled\"]")

for old, new in ((OLD1, NEW1), (OLD2, NEW2)):
    if s.count(old) != 1:
        sys.exit("expected exactly one occurrence of %r in %s (found %d)" % (old[:60], path, s.count(old)))
    s = s.replace(old, new)
open(path, "w").write(s)
print("patched C02 in", path)
