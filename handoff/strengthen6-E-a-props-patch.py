#!/usr/bin/env python3
"""Patch the C10 and C08 entries of bin/props.py in place (strengthening round 6-E, helper a:
the IMPORT-MODIFIER family - Family K of harness/cmd/c10/importkinds.go, Section I of
harness/cmd/c08/importkinds.go, generator harness/internal/wsgen/modifiers.go).
usage: python3 handoff/strengthen6-E-a-props-patch.py [path/to/bin/props.py]"""
import sys
path = sys.argv[1] if len(sys.argv) > 1 else "bin/props.py"
s = open(path).read()

# 1. C10 rule: Family K is described before the closing sentence of the rule
OLD1 = " (every file is reported for exactly the rule of ITS entry). Non-trivial = the module set has more than one module (every `bid` line counts); distinct = distinct protocol lines."
NEW1 = (
    " (every file is reported for exactly the rule of ITS entry)."
    " Family K (IMPORT MODIFIERS, harness/cmd/c10/importkinds.go + internal/wsgen/modifiers.go, case indexes 2000000 + 1000*kind + member and 2100000+j, own random"
    " stream): every file of every `ws`/`wsl` line now carries the modifier of each import statement (`^` = import public, `~` = import weak) and the model receives"
    " the file as import STATEMENTS (BufModel.Graph.KFile) through KFile.scan - every statement counts. 52 stratified members: plain / public / weak as the ONLY link"
    " between two modules; chains A -> B -> C with all 9 pairs of modifiers; the same dependency imported with different modifiers from two files of one module;"
    " all 6 assignments of {weak, public, plain} to three dependencies of one import list (with a weak well-known type among them); a well-known type nobody vendors"
    " (no dependency, no error) and one vendored by a workspace module (a dependency), each with the three modifiers; an import nobody provides with each modifier,"
    " directly and in a dependency (import-not-exist); an import inside one module; a module cycle without file cycle closed by each modifier (2- and 3-cycles);"
    " diamonds of weak / public edges; a dependency that is direct through a weak / public import and transitive through plain ones; a weak edge into a cycle the"
    " importer is not part of. Each member is built in memory (dependencies are remote modules in a third of the draws), as a v2 workspace and (a third of the"
    " members per quick run, by seed; all in the thorough tier) as buf.work.yaml + v1 modules, with shuffled module numbers / add order, names on some modules,"
    " random syntaxes, used and unused imports, extra files and an unrelated module; it goes through the ordinary case (protocol line, reachability oracle, DAG,"
    " ls-files vs build) AND is compared with the HAND-WRITTEN expectation of its shape, which does not depend on the modifiers (classes import-kind-dep-missing /"
    " -dep-extra / -direct-flag / -unprovided-weak-accepted / -unprovided-accepted / -cycle-not-reported / -error-class / -spurious-error / -dag-not-exact /"
    " -dag-error-missing / -workspace-build-failed). The 52 v2 members are handed to the real `buf dep graph` (dot and json, 8 processes): nodes and edges exact, non-zero"
    " exit when an import is unprovided or a cycle is closed (classes dep-graph-import-kind-edge-missing / -not-exact / -unprovided-accepted / -cycle-accepted /"
    " -cli-failed). Plus 150 (thorough 600) random workspaces of the ordinary generator whose import modifiers are re-drawn (1/3 weak, 1/4 public; Opts.ImportModifiers)."
    " Non-trivial = the module set has more than one module (every `bid` line counts); distinct = distinct protocol lines."
)

# 2. C10 trusted base: what travels on the line
OLD2 = "\"fastscan (import/package scanning) and protocompile are parameters of the model; the generator supplies the import lists it wrote into the sources\","
NEW2 = ("\"fastscan (import/package scanning) and protocompile are parameters of the model; the generator supplies the import STATEMENTS it wrote into the sources"
        " (path + modifier plain / public / weak; KFile.scan keeps every one of them, theorems ik_*); that fastscan reports exactly these statements is exercised through the"
        " real Module.ModuleDeps() / FileInfo.Imports() on every workspace, not modelled\",")

# 3. C08 rule: Section I after Section G
OLD3 = " Section G: module sets of local modules importing each other and remote modules with pinned dependency keys. Section N:"
NEW3 = (
    " Section G: module sets of local modules importing each other and remote modules with pinned dependency keys."
    " Section I (harness/cmd/c08/importkinds.go, case indexes 7000000 + 16*member + round, own random stream): module sets over the IMPORT-MODIFIER family of the shared"
    " generator internal/wsgen/modifiers.go (52 members x 2 (thorough 6) draws: plain / public / weak as the ONLY link between two modules, chains with every pair of"
    " modifiers, one dependency imported with different modifiers from two files, several modifiers in one import list, built-in and vendored well-known types, imports"
    " inside one module, diamonds, direct-and-transitive; dependencies local or remote with random pinned digests; LICENSE / doc / non-module files): (1) Module.Digest(b5)"
    " of every module equals the independent SHAKE256 construction over its files digest and the sorted digests of the dependencies the HARNESS resolves from the import"
    " statements of the rendered sources (every modifier counts; cross-checked against the hand-written expectation of the shape), `mset` lines with that closure; (2) for"
    " every module d of the set one byte of one of its module files is changed and the set rebuilt: the digest of a local module changes iff d is the module or one of its"
    " (direct / transitive) resolved dependencies, an unchanged rebuild gives the same digests (`mset` line of the importer per perturbed set); (3) members with an import"
    " nobody provides or a module cycle (closed by any modifier): no digest for the local modules that need it (a remote module, and a local module that merely reaches a"
    " cycle of remote modules, keep theirs). Classes b5-import-kind-dependency-not-covered / -construction / -insensitive / -oversensitive / -unstable /"
    " -unresolved-digested / -digest-error."
    " Section N:"
)

# 4. C08 trusted base
OLD4 = "\"import resolution of local modules (Module.ModuleDeps) is an input of the module-graph model (modelled under C10)\","
NEW4 = ("\"import resolution of local modules (Module.ModuleDeps) is an input of the module-graph model (modelled under C10, incl. that `import weak` / `import public`"
        " statements resolve like plain ones: BufProofs.C10 ik_*); Section I computes the resolved dependencies independently from the import statements it wrote\",")

for old, new in ((OLD1, NEW1), (OLD2, NEW2), (OLD3, NEW3), (OLD4, NEW4)):
    if s.count(old) != 1:
        sys.exit("expected exactly one occurrence of %r in %s (found %d)" % (old[:70], path, s.count(old)))
    s = s.replace(old, new)
open(path, "w").write(s)
print("patched", path)
