#!/usr/bin/env python3
"""Patch the C05 entry of bin/props.py in place (strengthening round 4-B): `rule` text + one assumption.
usage: python3 handoff/strengthen4-B-C05-props-patch.py [path/to/bin/props.py]   (idempotent; aborts when an anchor is not found exactly once)"""
import sys
path = sys.argv[1] if len(sys.argv) > 1 else "bin/props.py"
s = open(path).read()

OLD1 = " (not generated: groups declared as extensions, enums inside group bodies); compared as sets of (rule, file, source path)"
NEW1 = (
    " (not generated: groups declared as extensions, enums inside group bodies); cross-file operators on EVERY workspace: an RPC takes the request / response"
    " type of an RPC of ANOTHER file (same package / other package; equal or different service and RPC names; request<-request, response<-response,"
    " request<-response) and google.protobuf.Empty on one side of two RPCs of different files (expected from the documentation of"
    " RPC_REQUEST_RESPONSE_UNIQUE - a type may be used by one RPC only, counted over the whole module set, each allow_* option exempting its own side - and of"
    " RPC_*_STANDARD_NAME - the NAME of the type, whatever its package); names that differ from the demanded one in the CASE of one letter only or merely"
    " start with it (request / response type names, enum value prefix, directory, package). Name-collision workspaces (2 quick / 4 thorough per seed, 10"
    " files, clean by construction): a common package with spare <Rpc>Request / <Rpc>Response messages; a v1 package of three files whose nested message /"
    " enum names are ECHOED between scopes (also as case twins FooBar / Foobar) and whose services reuse each other's RPC names; an exact COPY of it as the"
    " v2 package with other (agreeing) option values - every message, enum, enum value, field, oneof, service and RPC has a twin of the same nested name in"
    " another package; a copy of the service file in a package / directory of which the first is a string prefix (a.b vs a.bx); a copy of the types file as"
    " v1beta1 (…/v1 is a prefix of …/v1beta1). On them: the clean runs; every operator at elements stratified by WHERE the name twins of the element are"
    " (another scope of the file / another file of the package / another package / none; RPC pairs by equal service+RPC name, equal RPC name, equal service"
    " name); the same operator at BOTH twins at once (two annotations expected); the RPC of v1 and its twin of v2 both taking the spare common type (both"
    " reported), one of them alone (silent); compared as sets of (rule, file, source path)"
)
OLD2 = "'rule selection (category -> rule ids) is taken from the real client (property C06)'"
OLD2b = '"rule selection (category -> rule ids) is taken from the real client (property C06)"'
ADD2 = ("the theorems in which RPC_REQUEST_RESPONSE_UNIQUE FIRES (violations_exact_rpc_unique, plant_rpc_*) assume pairwise distinct fully-qualified method names "
        "(FullNamesDistinct - what the linker guarantees and FullNameToMethod demands; evaluated by the driver on every lint line, field names=); "
        "the silence theorems do not need it")

if NEW1 in s:
    print("already patched", path); sys.exit(0)
if s.count(OLD1) != 1:
    sys.exit("anchor 1 not found exactly once")
s = s.replace(OLD1, NEW1)
for old in (OLD2, OLD2b):
    if s.count(old) == 1:
        s = s.replace(old, old + ', "' + ADD2 + '"')
        break
else:
    sys.exit("anchor 2 (C05 assumptions) not found exactly once")
open(path, "w").write(s)
print("patched", path)
