#!/usr/bin/env python3
"""strengthen6-B: patch the C07 `rule` text of bin/props.py in place (idempotent)."""
import sys
p = sys.argv[1] if len(sys.argv) > 1 else '/verif/bin/props.py'
s = open(p).read()
if "'lit' = ONE comment on every separator" in s:
    print('already patched'); sys.exit(0)
old = 'Each program goes through protocompile parser.Parse + bufformat.FormatFileNode. A program is one evaluation;'
new = ('Each program goes through protocompile parser.Parse + bufformat.FormatFileNode. '
 "Two families are generated systematically: 'lit' = ONE comment on every separator / bracket / value of an option literal, the cross product value kind (scalar, signed, string, string concatenation, identifier, one-element array of each, n-element array, arrays of message literals, nested {} / <> literal, empty array, empty literal) x separator (, ; none) x every token gap of the field (before the name ... behind the separator) x comment layout (in-line block, end-of-line // and /* */, own line attached / detached, multi-line block), rotating over nesting depth 1-3, wrapper kind, first/last field, one-line / one-field-per-line, and where the option sits (file, message, enum, service, method, oneof option statement, field option alone / first / followed by another, enum value option, extension range option), plus two-comment variants (quick: every (kind, separator, gap) with 3 layouts chosen by the seed, about 1750 programs; thorough: full cross product x depth, about 23000); 'degenerate' = empty, white-space-only, comment-only (line / block / empty // and /**/ / mixed / giant > 32 KiB / commented-out declarations, with and without final newline, byte order mark, CRLF), only syntax / edition / package / imports / options / one message / empty statements with comments in front of the first and behind the last statement, texts that do not parse, each through bufformat.FormatFileNode, bufformat.FormatBucket and the real CLI root command in process (buf format -w twice, -d applied with patch(1), -d --exit-code, --exit-code, -o dir, single file to stdout): same bytes as FormatFileNode, comment multiset of what is on disk / printed, exit code 100 iff something changes, an unparsable file is left alone; what -w wrote is sent to the Lean checker as well. Every failing program is classified completely (each missing comment by its own grammar position) and its residual program (without what explains the failure) is judged again, so a recorded finding cannot hide another failure of the same program. "
 'A program is one evaluation;')
assert s.count(old) == 1, 'anchor 1 not found'
s = s.replace(old, new, 1)
old2 = 'the Lean checker validFormat must accept (input, output, format(output)) and derive'
new2 = "the Lean checker validFormatFile (= validFormat behind the lexer's discarding of a leading UTF-8 byte order mark) and isFormatted must accept (input, output, format(output)) and derive"
assert s.count(old2) == 1, 'anchor 2 not found'
s = s.replace(old2, new2, 1)
open(p, 'w').write(s)
print('patched', p)
