#!/usr/bin/env python3
"""Patch the C11 entry of bin/props.py in place (strengthening round 5-C: extension bits of every
rebuilt image file, Part X of harness/cmd/c11).
usage: python3 handoff/strengthen5-C-C11-props-patch.py [path/to/bin/props.py]"""
import sys
path = sys.argv[1] if len(sys.argv) > 1 else "bin/props.py"
s = open(path).read()

# 1. rule: Part X sentence in front of the closing "A line is non-trivial ..." sentence of C11
OLD1 = " A line is non-trivial when a filter was applied and produced an image (A), the input had >=1 well-formed field (strip) / a buf extension (pimg) / a legacy element (legacy) / a declaration below a scope without own extensions (fext); distinct = distinct protocol lines."
NEW1 = (
    " Part X (partx.go): the EXTENSION BITS of every rebuilt image file - descriptor (hash), is_import, is_syntax_unspecified, unused_dependency indexes,"
    " module full name, commit id - through every place that hands out a new ImageFile object. X1: synthetic images as in A1, every file with random bits"
    " (no syntax, unused indexes none / first / middle / last / several / all, 0-3 named modules with / without commit, distinct descriptors) through"
    " ImageWithOnlyPaths[AllowNotExist], ImageWithoutImports, ImageByDir: protocol lines `xflt` whose answer carries ALL bits of every result file,"
    " compared with the model (BufModel/ImagePaths.lean section (i')); CloneImage and ImageToProtoImage -> wire -> NewImageForProto: oracle. X2: compiled"
    " 2-3 module workspaces (named with commit / unnamed; every file proto3 / proto2 / WITHOUT a syntax statement; unused imports at index 0 / middle / last /"
    " several / all; messages, enum, service) built in-process; for every file without syntax and / or with unused imports a stratified set of selections so"
    " that it stays a target, flips from target to import, or is dropped - by file path, directory, --exclude-path file / directory, path + exclude - plus"
    " random selections (a stratum that is not reached is a failure of the check, class extbits-generator-blind): filtered image vs the UNFILTERED image (all"
    " bits; is_import = not a target, targets and closure computed independently from the selection), vs the model (`xflt` lines on the built image), and vs"
    " the SOURCES built with module-level targeting (is_syntax_unspecified / module / commit / is_import / descriptor; unused_dependency only for files that"
    " are targets on both sides - for both-sides imports it is the recorded finding of Part A2 / B and stays under ITS class); ImageWithoutImports, ImageByDir,"
    " CloneImage, bufimageutil.FilterImage with include / exclude types (`tflt` lines: the image-file level of filterImageFile; oracle: the unused PATHS of the"
    " input file restricted to the dependencies still present are the paths the new indexes name, indexes in range and increasing, other bits unchanged), the"
    " proto round trip, and the in-process controller on an IMAGE input (--path / --exclude-path / --exclude-imports / --type; written and read back as binpb /"
    " json / txtpb / yaml + gz / zst; --as-file-descriptor-set carries no extension, the plain form one per file). X3 (real binary): `buf build IMAGE --path /"
    " --exclude-path / --exclude-imports / --type / --exclude-type -o OUT.{binpb,json,txtpb,yaml}` on the in-process image (names + commits), and `buf build"
    " <sources> --path m/p` vs `buf build IMAGE --path p` on the same workspace on disk, bit by bit. Oracle classes extbits-* (at most 6 recorded per class)."
)
NEW1 = NEW1 + OLD1.replace("a filter was applied and produced an image (A),", "a filter was applied and produced an image (A), a file with a set bit was in the input (xflt),")

# 2. trusted_base: what the compiler attaches is a parameter of the extension-bit theorems
OLD2 = '                                     "protocompile produces descriptors and import lists; the model takes a file as (path, declared imports)",\n'
NEW2 = OLD2 + (
    '                                     "extension bits: the model takes a file\'s descriptor as an opaque hash (Part X hashes the deterministic wire form without name and dependency list) and the bits the compiler attaches as given (compilerBits: unused dependencies only for roots); which type-filter closure decisions (dropped files, required imports, rewritten bodies) lead to a `tflt` line is read off the implementation\'s result (C12 models the closure)",\n'
)

# 3. assumptions: NewImage's commit check
OLD3 = '                        "no import cycles (compile error, not modelled)"],'
NEW3 = ('                        "no import cycles (compile error, not modelled)",\n'
        '                        "the files of one module of an input image share one commit (NewImage rejects anything else; not modelled)"],')

for old, new in ((OLD1, NEW1), (OLD2, NEW2), (OLD3, NEW3)):
    if s.count(old) != 1:
        sys.exit("expected exactly one occurrence of %r in %s (found %d)" % (old[:70], path, s.count(old)))
    s = s.replace(old, new)
open(path, "w").write(s)
print("patched", path)
