#!/usr/bin/env python3
"""tools/integrate.py <ID> <model-modules,comma> [--level proof|translation_validation] --text "..." --note "..." --tech "..."
Merges a delivered property into the shared files: Driver/Main.lean, BufModel.lean, BufProofs.lean,
bin/props.py (from handoff/<ID>-props-entry.py), MANIFEST.json."""
import sys, json, re, os, argparse
ap = argparse.ArgumentParser()
ap.add_argument("pid"); ap.add_argument("models")
ap.add_argument("--level", default="proof"); ap.add_argument("--text", required=True)
ap.add_argument("--note", required=True); ap.add_argument("--tech", default="Lean 4 proof over hand-written model + differential correspondence")
ap.add_argument("--ref", default=None); ap.add_argument("--gen-imports", default="")
a = ap.parse_args()
pid = a.pid; lid = pid.lower()
V = "/verif"
def edit(path, f):
    s = open(path).read(); t = f(s)
    if t != s: open(path, "w").write(t)
def main_lean(s):
    if "import Driver.%s\n" % pid not in s:
        s = s.replace("\ndef main", "import Driver.%s\n\ndef main" % pid, 1) if False else re.sub(r"(import Driver\.\w+\n)(?!import)", r"\1import Driver.%s\n" % pid, s, count=1)
    if '["%s"]' % lid not in s:
        s = s.replace("  | _ => IO.eprintln", '  | ["%s"] => Driver.%s.run; return 0\n  | _ => IO.eprintln' % (lid, pid))
    return s
edit(V + "/lean/Driver/Main.lean", main_lean)
def add_imports(path, mods):
    def f(s):
        for m in mods:
            if m and ("import %s\n" % m) not in s:
                s = s.rstrip("\n") + "\nimport %s\n" % m
        return s
    edit(path, f)
add_imports(V + "/lean/BufModel.lean", ["BufModel." + m for m in a.models.split(",") if m])
add_imports(V + "/lean/BufProofs.lean", ["BufProofs.Props." + pid])
if a.gen_imports:
    add_imports(V + "/lean/BufGen.lean", ["BufGen." + m for m in a.gen_imports.split(",") if m])
entry_file = V + "/handoff/%s-props-entry.py" % pid
if os.path.exists(entry_file):
    entry = open(entry_file).read().rstrip("\n")
    def props(s):
        if '"%s": {' % pid in s: return s
        s = s.rstrip(); assert s.endswith("}")
        return s[:-1] + entry + "\n}\n"
    edit(V + "/bin/props.py", props)
m = json.load(open(V + "/MANIFEST.json"))
m["checks"] = [c for c in m["checks"] if c["property_id"] != pid]
m["checks"].append({"property_id": pid, "quick_cmd": "bin/check %s --tier quick" % pid, "thorough_cmd": "bin/check %s --tier thorough" % pid,
  "evidence_file": "/verif/evidence/%s.json" % pid, "replay_cmd_template": "bin/check %s --replay {path}" % pid, "engine": "lean-proof+correspondence",
  "level_claimed": {"category": a.level, "text": a.text, "design_ref": a.ref or ("§6 " + pid)}, "level_note": a.note, "technique": a.tech})
m["checks"].sort(key=lambda c: c["property_id"])
m["not_applicable"] = [x for x in m["not_applicable"] if x["property_id"] != pid]
if pid not in m["engines"][0]["serves_properties"]:
    m["engines"][0]["serves_properties"].append(pid); m["engines"][0]["serves_properties"].sort()
json.dump(m, open(V + "/MANIFEST.json", "w"), indent=1)
print("integrated", pid)
