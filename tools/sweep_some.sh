#!/bin/sh
# like sweep.sh but for the properties named in SWEEP_IDS
cd "$(dirname "$0")/.."
if [ -n "$VP_RUN_REPO" ]; then export VERIF_REPO="$VP_RUN_REPO"; fi
mkdir -p work; bin/setup.sh > work/setup.log 2>&1 || true
for s in ${SWEEP_SEEDS:-1}; do
  for id in $SWEEP_IDS; do
    VERIF_SEED=$s bin/check $id --tier ${SWEEP_TIER:-quick} 2>&1 | grep -E "^(OK|VIOLATION)" | tail -1 | sed "s/^/seed=$s /"
  done
done
echo SWEEP-DONE
