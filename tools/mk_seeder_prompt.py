#!/usr/bin/env python3
"""tools/mk_seeder_prompt.py <ID> <mA> <mB>: print a seeder prompt for a further wave (e.g. m3 m4)
from the stored template; lists the earlier seeds' summaries so they are not repeated.  Creates
the scratch worktree /tmp/seed-<ID>."""
import sys, json, glob, os, subprocess
pid, a, b = sys.argv[1], sys.argv[2], sys.argv[3]
t = open("/verif/tools/seeder_prompts/seeder-%s.txt" % pid).read()
t = t.replace("call them m1 and m2", "call them %s and %s" % (a, b)).replace("zz_seed_m1_test.go", "zz_seed_%s_test.go" % a)
t = t.replace("/m1/ (resp. m2/)", "/%s/ (resp. %s/)" % (a, b)).replace("After saving m1", "After saving %s" % a).replace("before starting m2", "before starting %s" % b)
t = t.replace("summary of m1 and m2", "summary of %s and %s" % (a, b))
# `git stash` is shared by all worktrees of one repository: seeders working side by side popped each other's stashes once
t = t.replace("check with `git stash` if in doubt", "check on the unchanged files (see the procedure below; NEVER use `git stash`: the stash is shared with other engineers' worktrees) if in doubt")
t = t.replace("(`git stash push -- <changed non-demo files>` … must pass; `git stash pop`)", "(`git diff -- <changed non-demo files> > /tmp/seed-%s-out/cur.diff && git checkout -- <changed non-demo files>` … must pass; `git apply /tmp/seed-%s-out/cur.diff`; NEVER `git stash`)" % (pid, pid))
assert "git stash push" not in t
prev = []
for m in sorted(glob.glob("/verif/seeded/%s-m*/meta.json" % pid)):
    j = json.load(open(m)); prev.append("- " + j["summary"][:400].replace("\n", " "))
t += "\n\nAlready tried by earlier engineers (do NOT repeat these or near-variants; pick different mechanisms, different files where possible, and different trigger conditions):\n" + "\n".join(prev) + "\n"
subprocess.run("git -C /repo worktree remove --force /tmp/seed-%s 2>/dev/null; rm -rf /tmp/seed-%s /tmp/seed-%s-out; git -C /repo worktree add --detach /tmp/seed-%s >/dev/null 2>&1" % (pid, pid, pid, pid), shell=True)
print(t)
