#!/usr/bin/env python3
"""tools/confirm_seed.py <ID> <m1|m2>: confirm a seeded change in the scratch worktree /tmp/seed-<ID>:
builds, existing tests of the touched packages pass, demo fails with the change and passes without.
Then run bin/check <ID> against /repo with the patch applied (and undo). Stores /verif/seeded/<ID>-<m>/."""
import json, os, subprocess, sys, shutil, re
pid, m = sys.argv[1], sys.argv[2]
wt = "/tmp/seed-%s" % pid
out = "/tmp/seed-%s-out/%s" % (pid, m)
env = dict(os.environ, GOPROXY="off", GOFLAGS="-mod=mod")
def sh(cmd, cwd=wt, timeout=1800):
    p = subprocess.run(cmd, shell=True, cwd=cwd, env=env, capture_output=True, text=True, timeout=timeout)
    return p.returncode, (p.stdout + p.stderr)[-3000:]
meta = json.load(open(out + "/meta.json"))
sh("git checkout -- . && git clean -fdq")
rc, o = sh("git apply %s/patch.diff" % out)
assert rc == 0, o
files = [l[6:] for l in open(out + "/patch.diff") if l.startswith("+++ b/")]
pkgs = sorted({"./" + os.path.dirname(f) for f in files})
log = {"patched_files": files, "packages": pkgs}
rc, o = sh("go build %s && go vet %s" % (" ".join(pkgs), " ".join(pkgs)))
log["build_vet"] = rc
# existing tests of touched packages, with and without the patch (to discount environmental failures)
def failing(pk):
    rc, o = sh("go test -count=1 %s 2>&1 | grep -E '^(--- FAIL|FAIL|ok)' | sort | uniq" % " ".join(pk))
    return sorted(set(re.findall(r"--- FAIL: (\S+)", o))), o
with_fail, o1 = failing(pkgs)
demo_rel = meta["demo"]["path"]
demo_src = os.path.join(out, os.path.basename(demo_rel))
if not os.path.exists(demo_src):
    demo_src = os.path.join(out, demo_rel)
sh("git apply -R %s/patch.diff" % out)
base_fail, o2 = failing(pkgs)
sh("git apply %s/patch.diff" % out)
log["existing_tests_failing_with_patch"] = with_fail
log["existing_tests_failing_without_patch"] = base_fail
log["existing_tests_ok"] = set(with_fail) <= set(base_fail)
# demo
os.makedirs(os.path.dirname(os.path.join(wt, demo_rel)), exist_ok=True)
if os.path.isdir(demo_src):
    shutil.copytree(demo_src, os.path.join(wt, demo_rel), dirs_exist_ok=True)
else:
    shutil.copyfile(demo_src, os.path.join(wt, demo_rel))
run = meta["demo"]["run"]
run = re.sub(r"^(cd \S+ && )", "", run)
rc_with, o_with = sh(run)
sh("git apply -R %s/patch.diff" % out)
rc_without, o_without = sh(run)
sh("git apply %s/patch.diff" % out)
log["demo_cmd"] = run
log["demo_with_patch_rc"] = rc_with
log["demo_without_patch_rc"] = rc_without
log["demo_confirms"] = (rc_with != 0 and rc_without == 0)
sh("git checkout -- . && git clean -fdq")
# now the check against /repo
chk = {}
if "--nocheck" not in sys.argv:
    rc, o = sh("git -C /repo apply %s/patch.diff" % out, cwd="/verif")
    assert rc == 0, o
    try:
        for prop in (sys.argv[3].split(",") if len(sys.argv) > 3 and not sys.argv[3].startswith("--") else [pid]):
            rc, o = sh("bin/check %s --tier quick" % prop, cwd="/verif", timeout=3000)
            line = [l for l in o.splitlines() if "VIOLATION" in l or l.startswith("OK ")]
            chk[prop] = {"rc": rc, "verdict": line[-1] if line else o[-300:]}
            if rc != 0:
                rp = re.search(r"replay=(\S+)", o)
                if rp and os.path.exists(rp.group(1)):
                    r = json.load(open(rp.group(1)))
                    chk[prop]["class"] = r.get("class"); chk[prop]["what"] = (r.get("what") or "")[:400]
                    chk[prop]["broken_legs"] = [str(x)[:200] for x in (r.get("broken_legs") or r.get("proof_leg_problems", []) + r.get("correspondence_problems", []))][:3]
    finally:
        sh("git -C /repo checkout -- .", cwd="/verif")
log["check"] = chk
dst = "/verif/seeded/%s-%s" % (pid, m)
os.makedirs(dst, exist_ok=True)
shutil.copyfile(out + "/patch.diff", dst + "/patch.diff")
if os.path.isdir(demo_src):
    shutil.copytree(demo_src, dst + "/" + os.path.basename(demo_rel), dirs_exist_ok=True)
else:
    shutil.copyfile(demo_src, dst + "/" + os.path.basename(demo_rel))
meta["confirmed_by_lead"] = log
json.dump(meta, open(dst + "/meta.json", "w"), indent=1)
print(json.dumps({"id": pid, "m": m, "build_vet": log["build_vet"], "existing_tests_ok": log["existing_tests_ok"], "demo_confirms": log["demo_confirms"], "check": chk}, indent=1))
