#!/usr/bin/env python3
"""tools/design_counts.py: rewrite the theorem counts in the table of DESIGN.md §11.2 from the
Props files (same counting as bin/check and tools/gen_status.py)."""
import re, glob
V = "/verif"
def strip(src):
    src = re.sub(r"/-.*?-/", "", src, flags=re.S)
    return re.sub(r"--.*", "", src)
def count(pid):
    n = 0
    for f in glob.glob(V + "/lean/BufProofs/Props/%s*.lean" % pid):
        n += len(re.findall(r"^theorem\s+[A-Za-z0-9_.]+", strip(open(f).read()), re.M))
    return n
s = open(V + "/DESIGN.md").read()
def sub(m):
    return "| %s | %d |" % (m.group(1), count(m.group(1)))
s2 = re.sub(r"^\| (C\d\d) \| \d+ \|", sub, s, flags=re.M)
if s2 != s:
    open(V + "/DESIGN.md", "w").write(s2)
print({("C%02d" % i): count("C%02d" % i) for i in range(1, 21)})
