#!/usr/bin/env python3
"""tools/manifest_texts.py: the level_claimed.text / level_note of every check in one place;
`python3 tools/manifest_texts.py` writes them into MANIFEST.json (nothing else is touched).
The theorem names are those of lean/BufProofs/Props/<ID>*.lean; STATUS.md lists them all."""
import json

T = {}

T["C01"] = ("Lean theorems about Targeting.buildImage (what the driver runs): each path once, import-closed, minimal, every import strictly before its importer, "
  "import flag iff not a target; the target list CHARACTERISED (target_list_exact: p is a root iff some file of some module is targeted by module / --path / --exclude-path / proto-file reference — "
  "is_target_file_paths, is_target_file_proto_ref, map_has_equal_or_containing_path_iff), files of non-target modules enter only as imports (nontarget_files_are_imports); "
  "fuel always suffices (fuel_suffices), a build SUCCEEDS when every reachable import opens and no reachable file is on an import cycle (build_succeeds) and fails exactly otherwise (build_fails_iff, "
  "unopenable_import_fails, import_cycle_fails); result independent of the order in which the compiler returned files; duplicate paths rejected. "
  "Tied on every run by generated multi-module workspaces with every target/--path/--exclude-path selection through the real BuildImage; compile-error positions by planted errors (oracle only)",
  "Partial: descriptor contents, unused-dependency markers, WKT resolution and error positions are protocompile's (oracle: independent direct compile, planted-error positions; annotation_position_partial is model-only); "
  "trusted: Lean kernel, Graph/Targeting models tied by correspondence")

T["C02"] = ("Lean theorems: the verdict of thread.Parallelize is the same for every completion order and cancellation timing; the combined ERROR lists the failing jobs in job order and depends on the schedule only through "
  "the set of jobs that ran (parallelize_errors_completion_order_irrelevant, parallelize_errors_without_cancel; the pre-fix completion-order join is parallelize_error_order_counterexample, repaired by /repo 6d16415); "
  "collect-then-sort with a total order is canonical for every arrival permutation; storage.Copy's verdict, bucket walks, image construction (compile order), digests (walk order, dep order) and annotation lists "
  "(arrival order) are permutation-invariant (gathered from the C01/C08/C14/C15/C20 models). The runtime part — GOMAXPROCS 1..16, parallelism, injected yields at the dispatch hooks, storage walk order, "
  "module/argument/--path/--type order, repeated runs, modules large enough for the chunked parallel paths — is explored on every run in-process and through the real binary with byte-for-byte comparison of "
  "image, lint, breaking, format, ls-files, digest and dep-graph outputs (stdout, stderr and exit status); it is exploration, not proof",
  "Partial by nature: real goroutine schedules and race freedom are sampled, not proved; one recorded finding (image input with permuted --path); trusted: Lean kernel, Parallel model tied by correspondence")

T["C05"] = ("Lean theorems: grammar lemmas for all strings (PascalCase / lower_snake / UPPER_SNAKE accepted and rejected forms, version-suffix grammar); a workspace satisfying the decidable Clean conditions yields no "
  "annotation; imports are skipped; every field/element kind at every depth is visited (field_visit_complete, nested_visit_complete, file_extension_reported); Lean PLANTING OPERATORS mirroring the harness's "
  "operator families with frame lemmas and 36 plant_* exactness theorems (Clean workspace, operator applicable => lint = exactly the planted annotation, co-violations named as iff), derived from the grammar lemmas; "
  "the PACKAGE_SAME_* value space with unset vs explicit default (java_multiple_files_false_is_a_value, string_option_empty_is_unset); version grammar = exactly the documented forms (version_only_documented_forms); for any number of violations the annotation set IS the violation set (violations_exact_elem/_group/_rpc_unique/_stable, annotation_has_violation); documentation-level readings of the comment/suffix/prefix/"
  "standard-name rules. Tied on every run by exhaustive small-alphabet identifier strings through the real stringutil/protoversion functions and by clean-by-construction workspaces with planting operators "
  "stratified over (operator, KIND of element) through the real bufcheck.Client (rule, file, source path, line:column)",
  "Partial: PACKAGE_NO_IMPORT_CYCLE and STABLE_PACKAGE_NO_IMPORT_UNSTABLE have no planting theorem; ~25 rules' Clean condition is definitional (listed in clean_no_annotations' doc comment); PROTOVALIDATE oracle-only; "
  "one recorded finding (weak imports never reported); trusted: Lean kernel, Case/Lint models tied by correspondence, protocompile")

T["C07"] = ("Per-program translation validation with a checker proved sound in Lean: for every generated proto2/proto3/editions program the real formatter's output is accepted by validFormat AND isFormatted; soundness "
  "(checker_sound_tokens / checker_sound_chain / comments_attached): acceptance implies that the decorated significant-token stream of the output (tokens with the comments protocompile attributes to them) is obtained "
  "from that of the input by the explicit token rewrites (empty statements and message-literal separators dropped, <> to {}, missing ':' added) followed by a chain of elementary header steps (adjacent exchange of "
  "non-conflicting file-level statements, removal of a comment-free duplicate import), each step proved to preserve declarations in order, per-name option order, the import set and all comment anchors "
  "(same comment, same side, same token of the same declaration); isFormatted texts are fixed points of the modelled token-level formatter (formatted_fixed_point, formatted_accepts_itself). The Go oracle compiles "
  "input and output and compares descriptors, checks every comment and formats twice",
  "Not a universal theorem about the printer: validation per generated program; that a token rewrite preserves the PARSE and that equal meaning data give equal descriptors is the library assumption (exercised by the "
  "descriptor oracle); 15 recorded comment/idempotence corner cases are excluded by construct-specific class")

T["C09"] = ("Lean theorems: (gate) in ANY entry state a load that returns content returns exactly the module files the key pins — stated on the abstract gate (served_content_matches_key) AND on the gate that RECOMPUTES the C08 "
  "digest (digest_gate_sound via digest_sensitive; load_abstracts_loadD: the two gates are equal under no-collision); (writers) an inductive invariant over every interleaving of any number of writers that write the "
  "payload files in ANY order with several files in flight and arbitrary torn prefixes, with crashes, failures and unparsable markers as coded: valid marker => complete entry, marker only after a store that reported "
  "success, complete entries never modified, a later fault-free store repairs ANY marker-less entry (later_store_repairs), store returned nil => the next load hits (also through the digest gate: store_success_then_real_hit); "
  "a fault during the file phase makes the store fail before the marker — DERIVED from C15's copyAll_ok (marker_only_after_reported_success, fault_fires_then_store_errors; the pre-fix behaviour is "
  "cache_poison_counterexample); tar layout: the single object is old or the complete archive at every instant (tar_instant_old_or_new …). Tied on every run by crash-prefix enumeration of the real store's traced "
  "primitives under real parallel copies, fault schedules, multi-writer histories with the real locker protocol, tampering, tar corruption, SIGKILL campaign, cold and WARM cache providers",
  "Trusted: Lean kernel; Cache/CacheDigest models tied by correspondence (loadD through load_abstracts_loadD); SHAKE256 collision resistance is the explicit NoCollision hypothesis; "
  "flock mutual exclusion assumed; b5 keys only")

T["C10"] = ("Lean theorems over the shared graph model: module de-duplication prefers target over non-target and local over remote (stated for uniqueAdded, what the driver runs); every module directory's buf.lock is honoured in v1 "
  "workspaces (v1_every_lock_honoured …); ModuleDeps is exactly reach+ with direct flags (deps_sound, deps_exact, fuel_suffices), cycles are reported iff reachable (cycle_iff, dag_reports_reachable_cycle), duplicate path / "
  "missing import / no proto files / duplicates nobody imports are errors; ls-files = build: lsfiles_eq_build relates Graph.lsFiles and Targeting.buildImage (same sorted path list, same import flags, under ImportsAgree), "
  "files of non-target modules are imports. Tied on every run by generated in-memory, on-disk and LOCKED workspaces (per-module v1 buf.lock, v2 top-level lock, remote commits served in-process) read as the CLI reads them, "
  "by an independent reachability oracle, and by `buf dep graph` (json and dot) of the built binary against the import statements",
  "Partial: 'one pipeline succeeds iff the other does' is correspondence-only; trusted: Lean kernel, Graph model tied by correspondence, fastscan/protocompile as parameters, WKT table regenerated from datawkt")

T["C12"] = ("Lean theorems about the filter model: OUTPUT-level filter_drops_excludes (on filterWith … = .ok out: an excluded name is not declared, not a field/extension type at any depth, not a request/response type, not an extendee "
  "of any output file), output-level filter_links_partial (every type/extendee/request/response reference of the output is declared in the referring file or one of its listed dependencies), filter_keeps_includes; "
  "buildIndex well-formed for unique ids; closure-level inclusion/exclusion theorems; remapSlice index arithmetic for any keep/drop pattern; comments_follow_file_partial (locations of kept nested messages move to the "
  "renumbered path, locations at or below dropped messages are deleted, siblings do not interfere); fuel monotone. Totality, minimality, idempotence and the map-entry / oneof-index / extension-range link clauses are "
  "decided by the correspondence (every kept element, dependency list and source location compared with the model) and the implementation-only oracle (protodesc linking, apply-twice, includes/excludes) on every run",
  "Partial (staged): filter_total / filter_minimal / idempotent are correspondence+oracle only; 5 recorded findings; trusted: Lean kernel; Filter model tied by correspondence; protodesc linking is the oracle's library")

T["C13"] = ("Lean theorems for ALL strings and ALL histories: validation soundness (accepted => proper components only) and its exact shape (accepted_iff_shape: relative and no '..' survives lexical reduction), join under a relative "
  "and under an absolute root, containment = component prefix; frame theorems for put/delete/deleteAll/get/walk through any nesting of prefix/filter views (nothing outside the view root changes or is listed); for "
  "ARBITRARY, unvalidated view prefixes every successful write/delete still lands on a proper key of the parent (hostile_view_*_stays_in_base); disk put creates exactly one file below the root and only its ancestor "
  "directories (disk_put_stays_in_root); archive entries are contained; the bucket invariant is preserved. Tied on every run by exhaustive small-alphabet strings (incl. backslash look-alikes) through normalpath and the "
  "storageutil glue, and by hostile operation histories through nested views with well-formed and hostile prefixes over memory and disk parents with sentinels outside every root",
  "Trusted: Lean kernel; the hand-written model of normalpath/storage (tied by correspondence, not verified); Go filepath.Clean re-modelled; symlinks and Windows paths not modelled")

T["C14"] = ("Lean theorems: every history of the memory-bucket model, with any path strings, is a history of the abstract path->bytes map (refinement by simulation + induction; walk results may not contain junk keys); "
  "walk_get_coherent by structural induction over EVERY combinator (base, prefix view, filter, union, overlay, external-path strip): a successful walk lists exactly what get finds, each key once; abstraction equations "
  "per combinator; union reports duplicates; copy = map union for arbitrary composite sources; a real archive model with untar(tar(m)) = m for tar and zip incl. strip-components (untar_tar …; the '._' skip is "
  "untar_tar_drops_apple_files_counterexample); the disk bucket as a file TREE equals the memory bucket on prefix-free histories (disk_refines_map) and differs without that hypothesis. Tied on every run by differential "
  "histories over memory/disk/composite buckets incl. file-vs-directory conflicts, real Tar/Zip/Untar/Unzip with hostile archives, a walk/get coherence oracle, and a union/overlay oracle on every node of every expression (duplicates never hidden, first member wins, results independent of external paths)",
  "Trusted: Lean kernel; hand-written bucket/disk/archive models tied by correspondence; tar/zip byte codecs as library; symlinks not modelled")

T["C15"] = ("Lean theorems for every fault schedule: a helper that reports success fired no fault and wrote the complete object (PutPath/CopyReader/CopyReadObject/ForWriteObject, parallel Copy under every job order, "
  "Untar/Unzip with destination completeness, Tar/Zip writer close, generated-file flush over all outputs); atomic put is old-or-new after every step prefix, old with no temp after any single failing step, and — for two "
  "CONCURRENT atomic puts of one path under every interleaving — old or one writer's complete content (atomic_concurrent_old_or_new; shared_temp_counterexample shows why the temp name must be fresh). The helpers' error "
  "plumbing is REGENERATED from /repo on every run: a go/ast translator emits the raw (named result, deferred errors.Join triples) facts and Lean derives whether each deferred Close is joined into the named return "
  "(joinsNamed; facts_hold), with Go's defer-after-return semantics explicit (deferJoin). Tied by fault enumeration over every primitive (single and double), scripted two-writer interleavings, goroutine stress, SIGKILL "
  "and RLIMIT_FSIZE campaigns on real disk buckets",
  "Trusted: Lean kernel; Faults model + wrapper semantics; go/ast fact extractor; rename(2) atomicity assumed; no power-loss model; one recorded finding (a producer failure between Put and Close publishes the "
  "truncated temp file: atomic_producer_failure_counterexample)")

T["C16"] = ("Lean theorems at the structured level: buf.yaml v2 read/write round trip and write idempotence for ALL documents, v1/v1beta1 buf.yaml round trip (yaml_roundtrip_v1), check-config round trip in every version, "
  "buf.lock (deps and plugins) and buf.work.yaml round trips, and the STRING-level tie (written paths read back through Join / NormalizeAndValidate to the same keys: written_path_reads_back, yaml_roundtrip_strings); "
  "buf.gen.yaml: read(write c) = normalise c for every accepted document of every version with normalise explicit and idempotent (gen_reread_eq_normalise, gen_second_roundtrip) and exact iff-characterisations of "
  "when the round trip is the identity per version; migration: owners of every file in the migrated v2 workspace equal the v1 owners renamed, for whole workspaces through the file actually written "
  "(migrate_owners_exact, migrate_preserves_targets_partial). Tied on every run by thousands of generated documents through the real readers/writers and by in-process migrations of generated v1/v1beta1 workspaces "
  "(targeting, descriptors, lint and breaking results compared before/after)",
  "Partial: YAML text <-> structs (yaml.v3) and the effect of migration on check results are correspondence/oracle only; 17 recorded findings (buf.gen.yaml writer omissions, migration) are excluded by class; "
  "trusted: Lean kernel, Config models tied by correspondence")

T["C17"] = ("Lean theorems for every image with distinct paths and every plugin configuration of the model: targets generated exactly once, imports/WKTs exactly once when requested and never otherwise, no path twice, "
  "strategy all = one request, archive (.jar/.zip) outs keyed by the archive's own path with the jar manifest (Props/C17Archive), each request dependency-closed and ordered (every image built by the C01 model is ordered: built_image_ordered), source-retention stripping only in the runtime view, every written file "
  "comes from a plugin that returned it and lies under THAT plugin's absolute out directory (writes_under_out, per plugin, down to the disk path), insertion points only touch same-run files, and the same output path "
  "produced twice is an error whatever the spelling of names and out directories (duplicate_output_is_error; the pre-fix key is duplicate_alias_counterexample, repaired by /repo 969fe1c). Tied on every run by the real "
  "ImageByDir/ImagesToCodeGeneratorRequests, the real response writer with hostile names and insertion points, and whole-generator runs",
  "Trusted: Lean kernel; Generate model tied by correspondence; protoplugin response validation and source-retention stripping are library; .jar/.zip outs, type filters, remote plugins, cleaner not modelled")

T["C18"] = ("Lean theorems for all images and managed configs of the model, both preserve modes: FRAME over the full option lists (every file/field option managed mode does not govern for this file — unknown and custom options "
  "included, as hashes of their wire bytes — and the rest of the descriptor are unchanged: frame, modifiers_independent), WKT files untouched, disable rules, precedence as explicit specs (strSpec: last value wins, later "
  "prefix/suffix blank it, then the default; precedence_str, precedence_jstype two-directional), marks = exactly the options whose value changed, sweep of source locations composed to Modify (modify_sweep_exact: an iff per location on compiler-shaped source info at any option depth; modify_sweep_exact_partial in general), "
  "disabled mode is the identity, idempotence. Tied on every run by the complete post-state of the real descriptor after bufimagemodify.Modify on generated images x managed configs (incl. buf.gen.yaml v1/v2 text)",
  "Partial: for a FieldOptions parent location only the upper bound of the sweep is proved; default formulas, casing helpers, WKT list and YAML->rules translation are correspondence-only; trusted: Lean kernel; Managed model tied by correspondence")

T["C03"] = ("Lean theorems, one per rule id (all 62 modelled ids), stated on ARBITRARY schema pairs (hypotheses constrain only the edited element, so unrelated surrounding changes are covered by construction), each APPLIED in an "
  "example on one witness pair carrying every edit family: deletions (fields/enum values with the reservation variants, messages, enums, extensions, services, RPCs, oneofs, files, packages incl. the last element of a package), "
  "type / wire / wire+JSON group changes incl. the type NAME of message- and group/delimited-encoded fields and message_encoding flips, cardinality, name, JSON name, oneof, default (exact for 64-bit values: detects_integer_default_change), enum closedness, RPC request/response/"
  "streaming/idempotency, file package, syntax and the 16 tracked file options; the conclusion is Reports id a cur prev for EVERY category in which the rule is active (rules_active: decide over tables regenerated from /repo), "
  "and the annotation's source path resolves to the edited element (located_*). Tied by an 89-operator edit catalogue planted, stratified, at every KIND of field (scalar, message, enum, group, delimited by field feature / "
  "inherited, map, oneof member, proto3 optional, extension, packed/expanded) in proto2 / proto3 / editions files through the real Client.Breaking",
  "Partial: annotation message text and against-file are oracle-only (Ann carries neither); the enum-subset branch of the wire rules and the multiplicity for rules other than FIELD_NO_DELETE are correspondence-only; 2 custom-feature "
  "rules oracle-only; trusted: Lean kernel, Schema/Breaking models tied by correspondence, protocompile")

T["C04"] = ("Lean theorems for all schema pairs of the model: a well-formed schema compared with itself is clean in every category and config version; the only-adds relation is a formal catalogue of source edits (SchemaEdit.sound, "
  "additive_edits_clean), reflexive, transitive and clean, hence every later version of an additive chain against every earlier one (the closed-enum first-value exception is additive_first_enum_value_counterexample); "
  "cosmetic edits (incl. respelled defaults) are invisible; images with IMPORT files and the exclude-imports filter are modelled as coded (exclude_imports_only_removes, hierarchy_with_imports, exclude_imports_order_counterexample); the hierarchy FILE => PACKAGE => WIRE_JSON => WIRE holds for ALL pairs from per-rule implication lemmas plus decide-theorems over the category and compatibility-group tables regenerated "
  "from /repo on every run. Tied by generated schemas and edit chains — including 16-27-file images under parallelism 2 and 3 with permuted file order, so the chunked bufprotosource.NewFiles path runs — compiled with buf's "
  "builder and checked by the real Client.Breaking per category, single rule and config version",
  "Trusted: Lean kernel; Schema/Breaking models tied by correspondence (62 of 64 rule ids modelled; 2 custom-feature rules oracle-only); WF/KindsOK hypotheses evaluated by the driver per line; protocompile as parameter")

T["C06"] = ("Lean theorems for all use/except/ignore/ignore_only/comment configurations: rule selection is set algebra through the regenerated rule tables, unknown ids rejected, deprecated ids denote their replacements, category "
  "nesting MINIMAL<=BASIC<=STANDARD and DEFAULT=STANDARD by decide over the tables regenerated from the live specs (3 config versions); the resolved configuration is characterised from the lists the USER wrote "
  "(resolved_config_spec), report = union over selected rules minus exactly the suppressed annotations, adding ignore / ignore_only / except / a comment never adds an annotation and removes only annotations in its scope "
  "(user_suppression_monotone/_scoped, adding_*_monotone/_scoped, comments by element identity so line shifts are covered), imports never reported; which buf.yaml section applies (workspace vs module level, empty vs "
  "absent, single-key sections: yaml_*). Tied on every run by the real bufcheck.Client under thousands of generated configurations, by comment ignores planted on every kind of enclosing construct (135 annotated-kind x "
  "comment-position classes x 7 spellings) and by buf.yaml TEXT through the real reader for v1beta1/v1/v2 at workspace and module level",
  "Trusted: Lean kernel; Rules model tied by correspondence; rule handlers are parameters; the scope of a comment is the documented one (the element and its descriptor-tree parents); 3 recorded findings (group field, "
  "second extend block, leak from the first extend block); table translator harness/cmd/c06gen")

T["C20"] = ("Lean theorems: exit status is 0 iff nothing to report, 100 iff the problem is in the user's sources, another non-zero otherwise — over a model of Go error VALUES through handleFileAnnotationSetRetError / the check "
  "loop / wrapError / the app exit-code mapping as coded (under StepsOK, each clause shown necessary by a counterexample) and for all 16 `buf format` flag combinations, with a content-level model of the -w rewrite walk (every changed file holds exactly the formatter's output afterwards, the second run is clean: write_leaves_formatter_output, write_second_run_clean); de-duplication drops only annotations equal on all "
  "seven key fields and the sorted list is independent of input order; DECODER statements per format (formats_decode: parsing the printed text gives back the projected annotation list, for text / msvs / github-actions / "
  "json / junit, with the exact side conditions text_decode_iff / msvs_decode_iff) and the cross-format corollary (any two formats agree, in order, on every field both carry); one-line formats stay one line for any text. "
  "Tied on every run by generated annotation sets through the real printers (decoded by the Lean decoders and by independent Go decoders), by real error values fed through the code extracted from the working tree, and by "
  "about a thousand runs of the real buf binary (lint / breaking / build / format in every mode, dep graph for import-not-found) on generated workspaces with problems planted at every phase (header scan, lexer, parser, linker) x input form x --error-format",
  "Trusted: Lean kernel; Annot model tied by correspondence; encoding/json and encoding/xml escaping are library (decoded on every case); a failing write of the annotations is not modelled")

T["C08"] = ("Lean theorems for all file sets and dependency lists of the model: manifest text round-trips and is injective for every node list accepted by NewFileNode (which, after /repo 8ef24f2, rejects a line feed in a path: the two former U+000A findings are repaired; the pre-fix behaviour stays as counterexample theorems), the digest is a function of the module-file set (any walk order, non-module files ignored, dep order "
  "irrelevant), and — under the explicit hypothesis that the hash does not collide on the strings compared — differs whenever module files or dependency digests differ with NO side condition on the paths (a successful digest implies newline-free module files: digest_ok_newline_free), for b5 AND b4 (b4_sensitive) and through module "
  "sets (moduleSet_sensitive: a changed file of a transitive local dependency changes every dependant's digest; moduleDigest_fuel_any_numbering); module-file matcher constants are regenerated from /repo and pinned by a "
  "decide-theorem. Tied on every run by generated file sets across memory/disk/tar/shuffled-walk backends, perturbations, and an independent SHAKE256 recomputation of the published b5 construction",
  "Trusted: Lean kernel; Manifest/Digest model tied by correspondence; hash H is a parameter (table computed by Go); SHAKE256 collision resistance is a hypothesis; ModuleDeps resolution is an input")

T["C11"] = ("Lean theorems: under the property's side condition (no --path inside an --exclude-path, all modules targeted) image-level path filtering and module-level targeting select the same files with the same import flags "
  "(as a permutation; decide-counterexamples show each hypothesis is needed), image<->proto-image field mapping round-trips, stripping the buf extension removes exactly field 8042 and is the identity on malformed bytes; "
  "the legacy-option stripping applied when an image is READ (stripLegacyOptions) is modelled on descriptor trees with an explicit pointer discipline: it never mutates its input, strips exactly the legacy options "
  "(message_set_wire_format, weak, extension numbers clipped to 2^29-1) at every nesting depth and touches nothing else (legacy_strip_never_mutates_input, legacy_strip_result_exact, legacy_spec_frame, idempotent; the "
  "code is copied verbatim from the working tree into a probe and compared). Encoders/decoders (binpb, json, txtpb, yaml; gzip, zstd; 12 combinations and their spellings), source packagings (directory, tar in three "
  "header formats, tar.gz, zip, git, buf export of everything incl. vendored well-known types in named and unnamed modules) and lint/breaking on image vs sources under every config shape are decided by the "
  "correspondence and the oracle through the real buf binary on every run (field-by-field proto.Equal, byte-stable rewrite)",
  "Partial: codec round trips, packagings and check results on images are correspondence/oracle only; file ORDER differs legitimately between the two implementations (both topological) so equality is stated as a "
  "permutation; 5 recorded findings; trusted: Lean kernel, ImagePaths/LegacyStrip models tied by correspondence, proto.CloneOf is a deep copy")

T["C19"] = ("Lean theorems for all BUF_TOKEN strings and all netrc machine lists: a token reaches a host only if exactly that token@host entry (or the host-less token, or the netrc machine/default entry) was configured; malformed "
  "strings are rejected as a whole; first source wins; whole chain from bufcli config to the interceptor; redirect chains: no hop carries a token unless it goes to the original host (hopHeaders: net/http's copy rule + bufcli.checkRedirect). Exhaustive small-alphabet + random correspondence with the real providers, interceptor, loopback HTTP servers and a fake redirecting network on every run",
  "Trusted: Lean kernel; hand-written model of bufconnect/netrc/connectclient tied by correspondence; go-netrc's lexer and connect-go not modelled, of net/http only the redirect header rule (compared per hop); 1 recorded finding (netrc VALUE spelled `default`)")


# addenda of rounds 5 and 6 (appended to the texts above)
ADD = {
 "C01": " Rounds 4-6: wire form (Props/C01Wire: the serialised image decoded per field number equals the model's records); a path-component NAMES family (directories named *.proto, string-prefix siblings, unicode, every spelling of a selection value) through memory, disk and the real binary; workspace-level --path / --exclude-path selections distributed over 2-4 modules (WorkspaceTargeting model, Props/C01Select: selection_never_system_error, module_selection_exact, untargeted_module_ignores_excludes); every DERIVED image (path filter, ImageByDir, without-imports, type filter, plugin requests) closed and ordered, also with unused imports (Props/C01Derived: derived_image_closed)",
 "C02": " Rounds 5-6: an event machine for Parallelize (parallelize_waits_for_all_dispatched: it returns only after every dispatched job has finished); order clauses of FILTERED images and OVERLAPPING --path values (OrderClauses model: kept imports in old order then gained ones ascending, no file twice, the target set is a function of the path SET); import-cycle and many-problem families through the binary",
 "C03": " Round 5: 98 operators; enum-value ALIAS family (numbers with 1-3 names; reserving nothing / the number / a range / all names / some names, near-miss variants; silence theorems where the documentation exempts the edit: class C03-spurious-*); scalar type matrix over all ordered type pairs",
 "C04": " Round 5: the C03 catalogue pairs are evaluated under all four categories x three config versions with a per-subject containment oracle (every annotation of the laxer category is about an element the stricter category reports too; type_rules_ordered_per_field)",
 "C05": " Round 5: declaration-order and position strata for every element-level rule (first / middle / last / only / index >= 10; Props/C05Order), enum number templates x closedness variants with a documentation-level oracle",
 "C06": " Round 5: KEY family - every rule id and category of BOTH rule types x use / except / ignore_only x section x version through the real reader, Client and commands (Props/C06Keys: ignore_only_key_of_other_type_rejected, use_/except_key_of_other_type_rejected, lint_breaking_keys_disjoint, ids_are_compared_exactly)",
 "C07": " Round 6: comment x separator x bracket family of option literals (17 value kinds x separator x gap x layout x depth x option site) and DEGENERATE files (empty, comment-only, BOM, CRLF) through FormatFileNode, FormatBucket and the CLI; comment_only_file_not_emptied, file_comments_preserved; every missing comment classified on its own so recorded classes cannot mask new ones",
 "C08": " Rounds 4-5: digest HISTORY section (a failed read never changes a later digest) and a UNICODE path family (normalisation twins are distinct keys with distinct digests; invalid UTF-8 and 64 KiB paths; independent SHAKE256 over the literal bytes)",
 "C09": " Round 5: finished_writer_is_inert (a store performs no primitive after it returned) with late-job histories (gated sibling copies around a failing store, later writers, then release) through the real store",
 "C10": " Round 5: the BucketID scheme of v2 workspaces is injective for EVERY directory list (Props/C10BucketID: bucketID_v2_injective, no precondition), first-pass and seeded schemes as counterexamples; OpaqueID collision between a module name and a directory path as bid_v2_opaque_collision_counterexample (recorded finding)",
 "C11": " Round 5: the extension bits of image files (is_syntax_unspecified, unused-dependency indexes remapped, module name and commit, is_import = not a target) are preserved by every operation that rebuilds image files (Props/C11ExtBits), compared through path filter, ImageWithoutImports, ImageByDir, clone, four encodings and the type filter",
 "C12": " Round 6: options of DROPPED elements add nothing to the closure (Props/C12Dropped) with a minimality oracle computed on the result image alone; buf generate's per-plugin batching key is injective on (types, exclude_types) and every plugin receives the image filtered by ITS filter (Props/C12Batch: key_injective_on_filters, plugin_receives_own_filter; repaired by /repo 1be192b)",
 "C13": " Round 5: archive ENTRY KINDS (ArchiveKinds model: every tar typeflag / zip mode x hostile names x strip-components; untar_error_iff / unzip_error_iff: extraction fails EXACTLY when some entry of any kind has a refused name - no exception since /repo 36b7500; link names are never read; nothing but regular entries is written) and unicode normalisation twins as distinct keys",
 "C14": " Round 6: reader handles (Reader model: read_after_overwrite_is_snapshot for memory, disk readers as open descriptors), duplicate archive members (extract_last_member_wins), ancestor-DeleteAll histories with an ACCEPTANCE oracle (an operation the reference map accepts must not fail on any backend)",
 "C15": " Rounds 4-5: walk callbacks and error kinds; REAL close / write failures on disk buckets (the descriptor closed behind the bucket's back through /proc/self/fd at every position of every helper; real_plain_put_is_wrapper_fault ties them to the model's close fault; a second Close is ErrClosed)",
 "C16": " Round 6: the RULE SELECTION part of `buf config migrate` modelled on the regenerated rule tables (Props/C16Migrate*: migrate_preserves_selected_rules with its exact decidable exception, migrate_preserves_selected_rules_exactly, rules_without_v2_counterpart, migrate_preserves_ignore_only, migrate_ignore_only_order_independent; for the repaired code migrate_fixed_preserves_selected_rules, /repo 2afb6fd and fd016ed) and compared with the real Migrator on every id and category of every version",
 "C17": " Round 5: PRESENCE of the optional response fields is explicit in the model (Option): a present-but-empty insertion point is not an insertion and does not bypass the duplicate check, a nameless file continues the previous one, nothing in the pipeline looks at presence (Props/C17Presence; whole-pipeline runGenerate incl. the protoplugin normalisation); requests stay closed with unused imports",
 "C20": " Round 4: import-PATH family (41 import kinds x planted position x input form through the binary and through the real BuildImage / ModuleDeps): an unresolvable import is annotated with status 100 whatever the cause (unresolvable_import_is_annotated, import_fate_of_path)",
}
NOTE_SUB = {
 "C01": ("trusted: Lean kernel, Graph/Targeting models", "1 recorded finding (a selection value below a regular file fails on disk buckets); trusted: Lean kernel, Graph/Targeting/WorkspaceTargeting models"),
 "C02": ("one recorded finding (image input with permuted --path)", "3 recorded findings (image input with permuted --path; duplicate-symbol blame and import-cycle annotations, both decided by protocompile's scheduler), 2 repaired (6d16415, 738ddcb)"),
 "C06": ("3 recorded findings (group field, second extend block, leak from the first extend block)", "4 recorded findings (group field, second extend block, leak from the first extend block, unknown ignore_only key without paths)"),
 "C07": ("15 recorded comment/idempotence corner cases are excluded by construct-specific class", "4 recorded comment corner cases remain (11 repaired), each excluded by a construct-specific class"),
 "C10": ("Partial: 'one pipeline succeeds iff the other does' is correspondence-only;", "Partial: 'one pipeline succeeds iff the other does' is correspondence-only; 1 recorded finding (module name equal to another module's directory path);"),
 "C12": ("5 recorded findings;", "3 recorded findings (4 repaired);"),
 "C15": ("one recorded finding (a producer failure", "2 recorded findings (a producer failure"),
 "C16": ("17 recorded findings (buf.gen.yaml writer omissions, migration) are excluded by class", "10 recorded findings (buf.gen.yaml writer omissions, migration roots split / category-keyed ignore_only) are excluded by class; 9 migration defects repaired"),
 "C17": (".jar/.zip outs, type filters, remote plugins, cleaner not modelled", "remote plugins and the cleaner not modelled (per-plugin type filters: C12)"),
}


def main():
    p = "/verif/MANIFEST.json"
    m = json.load(open(p))
    n = 0
    for c in m["checks"]:
        t = T.get(c["property_id"])
        if t:
            pid = c["property_id"]
            a, b = t
            if pid in NOTE_SUB:
                old, new = NOTE_SUB[pid]
                assert old in b, (pid, old)
                b = b.replace(old, new)
            t = (a + ADD.get(pid, ""), b)
        if t:
            c["level_claimed"]["text"] = t[0]
            c["level_note"] = t[1]
            n += 1
    json.dump(m, open(p, "w"), indent=1)
    print("updated", n, "checks")


if __name__ == "__main__":
    main()
