#!/bin/sh
# unchanged-tree sweep over several seeds (run through `vp run --with-repo`): any VIOLATION here is a
# false alarm or a new genuine finding and must be looked at.
cd "$(dirname "$0")/.."
if [ -n "$VP_RUN_REPO" ]; then export VERIF_REPO="$VP_RUN_REPO"; fi
mkdir -p work; bin/setup.sh > work/setup.log 2>&1 || true
ids=$(python3 -c "import json;print(' '.join(c['property_id'] for c in json.load(open('MANIFEST.json'))['checks']))")
for s in ${SWEEP_SEEDS:-2 3 7 11}; do
  for id in $ids; do
    out=$(VERIF_SEED=$s bin/check $id --tier ${SWEEP_TIER:-quick} 2>&1 | grep -E "^(OK|VIOLATION)" | tail -1)
    echo "seed=$s $out"
    case "$out" in VIOLATION*) f=$(echo "$out" | sed 's/.*replay=\([^ ]*\).*/\1/'); python3 -c "
import json,sys
r=json.load(open('$f'));print('   class:',r.get('class'),'|',(r.get('what') or '')[:300]);print('   legs:',[str(x)[:160] for x in (r.get('broken_legs') or r.get('proof_leg_problems',[])+r.get('correspondence_problems',[]))][:3])";; esac
  done
done
echo SWEEP-DONE
