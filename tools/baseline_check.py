#!/usr/bin/env python3
"""Run the repository's test suite (guard off) and verify every test of BASELINE.stable_pass still passes."""
import json, subprocess, os, sys
env = dict(os.environ, GOPROXY="off", GOFLAGS="-mod=mod")
p = subprocess.run(["go", "test", "-json", "-vet=off", "-count=1", "-timeout", "40m", "./..."], cwd="/repo", env=env, capture_output=True, text=True)
res = {}
for line in p.stdout.splitlines():
    try:
        e = json.loads(line)
    except Exception:
        continue
    if e.get("Test") and e.get("Action") in ("pass", "fail", "skip"):
        res[e["Package"] + "::" + e["Test"]] = e["Action"]
sp = json.load(open("/root/.vp/BASELINE.json"))["stable_pass"]
bad = [t for t in sp if res.get(t) != "pass"]
print("stable_pass:", len(sp), "now passing:", len(sp) - len(bad))
for t in bad[:40]:
    print("NOT PASSING:", t, res.get(t))
sys.exit(1 if bad else 0)
