#!/usr/bin/env python3
"""tools/retest_seed.py <seed-dir-name> [props]: re-run bin/check with the stored seeded change
/verif/seeded/<name>/patch.diff applied transiently to /repo (always undone), and record the
result under meta.json["retests"].  Exit 0 if some listed property's check reports a VIOLATION."""
import json, os, subprocess, sys, re, time
name = sys.argv[1]
d = "/verif/seeded/" + name
meta = json.load(open(d + "/meta.json"))
props = sys.argv[2].split(",") if len(sys.argv) > 2 else [meta["property"]]
env = dict(os.environ, GOPROXY="off", GOFLAGS="-mod=mod")
def sh(cmd, timeout=3000):
    p = subprocess.run(cmd, shell=True, cwd="/verif", env=env, capture_output=True, text=True, timeout=timeout)
    return p.returncode, (p.stdout + p.stderr)[-3000:]
rc, o = sh("git -C /repo status --porcelain")
assert o.strip() == "", "repo not clean: " + o
rc, o = sh("git -C /repo apply %s/patch.diff" % d)
assert rc == 0, o
res = {}
# the mutated run must not leave its evidence / generated tables behind
saved = {p: open("/verif/evidence/%s.json" % p).read() for p in props if os.path.exists("/verif/evidence/%s.json" % p)}
try:
    for prop in props:
        rc, o = sh("bin/check %s --tier quick" % prop)
        line = [l for l in o.splitlines() if "VIOLATION" in l or l.startswith("OK ")]
        res[prop] = {"rc": rc, "verdict": line[-1] if line else o[-300:]}
        rp = re.search(r"replay=(\S+)", o)
        if rc != 0 and rp and os.path.exists(rp.group(1)):
            r = json.load(open(rp.group(1)))
            res[prop]["class"] = r.get("class"); res[prop]["what"] = (r.get("what") or "")[:400]
            res[prop]["broken_legs"] = [str(x)[:200] for x in (r.get("broken_legs") or r.get("proof_leg_problems", []) + r.get("correspondence_problems", []))][:3]
finally:
    sh("git -C /repo checkout -- . && git -C /repo clean -fdq")
    for p, txt in saved.items():
        open("/verif/evidence/%s.json" % p, "w").write(txt)
    sh("bin/gen_all")
meta.setdefault("retests", []).append({"props": res})
json.dump(meta, open(d + "/meta.json", "w"), indent=1)
caught = any(v["rc"] != 0 and "VIOLATION" in v["verdict"] for v in res.values())
print(name, "CAUGHT" if caught else "MISSED", json.dumps(res)[:600])
sys.exit(0 if caught else 1)
