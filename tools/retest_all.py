#!/usr/bin/env python3
"""tools/retest_all.py [seed-names…]: re-run the quick check of every stored seeded change
(/verif/seeded/<ID>-mN/patch.diff) against a repository copy with the patch applied.
Meant for `vp run --with-repo -- tools/retest_all.py` (uses $VP_RUN_REPO as the repository to patch;
falls back to /repo, which must then be clean).  Prints one line per seed and writes
work/retest_results.json (merge into the meta.json files with --merge <file>)."""
import json, os, subprocess, sys, re, glob
here = os.path.dirname(os.path.dirname(os.path.abspath(__file__)))
if len(sys.argv) > 2 and sys.argv[1] == "--merge":
    res = json.load(open(sys.argv[2]))
    for name, r in res.items():
        mp = "/verif/seeded/%s/meta.json" % name
        m = json.load(open(mp)); m.setdefault("retests", []).append({"props": r}); json.dump(m, open(mp, "w"), indent=1)
    print("merged", len(res)); sys.exit(0)
repo = os.environ.get("VP_RUN_REPO") or os.environ.get("VERIF_REPO") or "/repo"
env = dict(os.environ, GOPROXY="off", GOFLAGS="-mod=mod", VERIF_REPO=repo)
def sh(cmd, timeout=3000):
    p = subprocess.run(cmd, shell=True, cwd=here, env=env, capture_output=True, text=True, timeout=timeout)
    return p.returncode, (p.stdout + p.stderr)[-3000:]
EXTRA = {"C02-m1": ["C02", "C10"], "C08-m2": ["C08", "C10"], "C03-m4": ["C03", "C04"], "C07-m4": ["C07", "C20"], "C07-m6": ["C07", "C20"], "C12-m4": ["C12", "C17"], "C17-m5": ["C17", "C12"], "C05-m8": ["C05", "C02"], "C15-m7": ["C15", "C09"], "C09-m7": ["C09", "C15"], "C15-m9": ["C15", "C14"], "C15-m10": ["C15", "C14"], "C11-m10": ["C11", "C14"], "C08-m9": ["C08", "C10"], "C17-m10": ["C17", "C01"], "C12-m10": ["C12", "C17"], "C09-m8": ["C09", "C02", "C15"]}
names = sys.argv[1:] or sorted(os.path.basename(d) for d in glob.glob(here + "/seeded/C*-m*"))
os.makedirs(here + "/work", exist_ok=True)
sh("bin/setup.sh > work/setup.log 2>&1")
results = {}
for name in names:
    d = here + "/seeded/" + name
    meta = json.load(open(d + "/meta.json"))
    rc, o = sh("git -C %s status --porcelain" % repo)
    if o.strip():
        sh("git -C %s checkout -- . && git -C %s clean -fdq" % (repo, repo))
    rc, o = sh("git -C %s apply %s/patch.diff" % (repo, d))
    if rc != 0:
        print(name, "PATCH-DOES-NOT-APPLY", o[-200:]); results[name] = {"error": "patch does not apply"}; continue
    res = {}
    try:
        for prop in EXTRA.get(name, [meta["property"]]):
            rc, o = sh("bin/check %s --tier quick" % prop)
            line = [l for l in o.splitlines() if "VIOLATION" in l or l.startswith("OK ")]
            res[prop] = {"rc": rc, "verdict": line[-1] if line else o[-300:]}
            rp = re.search(r"replay=(\S+)", o)
            if rc != 0 and rp and os.path.exists(rp.group(1)):
                r = json.load(open(rp.group(1)))
                res[prop]["class"] = r.get("class"); res[prop]["what"] = (r.get("what") or "")[:300]
    finally:
        sh("git -C %s checkout -- . && git -C %s clean -fdq" % (repo, repo))
    caught = any(v["rc"] != 0 and "VIOLATION" in v["verdict"] for v in res.values())
    results[name] = res
    print(name, "CAUGHT" if caught else "MISSED", {p: (v.get("class") or v["verdict"][:60]) for p, v in res.items()}, flush=True)
    json.dump(results, open(here + "/work/retest_results.json", "w"), indent=1)
print("RETEST-DONE")
